import sys, os; sys.path.insert(0, os.environ.get('VERIF_REPO','/repo'))
import tapescript as ts, time, signal, tracemalloc, sys
from tapescript import *
from tapescript import functions as F, parsing as P
c = compile_script
def tryrun(label, f):
    try:
        r = f()
        print(label, "->", r)
    except BaseException as e:
        print(label, "RAISED", type(e).__name__, str(e)[:100])

# D: decompile PUSH2 negative hang
def alarm(*a): raise TimeoutError("hang")
signal.signal(signal.SIGALRM, alarm)
def dec(b):
    signal.alarm(2)
    try:
        return decompile_script(b)
    finally:
        signal.alarm(0)
tryrun("D decompile 04fffd", lambda: dec(bytes.fromhex('04fffd')))
tryrun("D decompile 04 8000 + 32768 bytes", lambda: dec(b'\x04\x80\x00' + b'a'*32768)[:1][0][:30])
# E: NOP roundtrip
b = c('NOP255 xc8'); print("E", b.hex(), decompile_script(b))
tryrun("E recompile", lambda: c(' '.join(decompile_script(b))).hex())
# F: DIV_INT non-minimal
b = c('OP_DIV_INT x0005'); print("F", b.hex(), decompile_script(b))
tryrun("F recompile", lambda: c(' '.join(decompile_script(b))).hex())
b = c('OP_MOD_INT x'); print("F2", b.hex())
tryrun("F2 decompile", lambda: decompile_script(b))
# G: flags
seed = b'\x11'*32
t,s,ca = run_script(c(f'unset_flag d1 push x{seed.hex()} derive_scalar'))
print("G unset_flag d1 ->  b'x' in cache:", b'x' in ca, t.flags.get(1))
tryrun("G set_flag d1", lambda: run_script(c('set_flag d1'), additional_flags={1: False})[0].flags[1])
# END_TRY
tryrun("END_TRY", lambda: c('try true end_try').hex())
tryrun("TRY EXCEPT END_EXCEPT", lambda: c('try true except false end_except').hex())
tryrun("def alias OP_RCZ", lambda: c('def 0 { OP_RCZ x00 }').hex())
tryrun("def alias RCZ", lambda: c('def 0 { RCZ x00 }').hex())
tryrun("push1 end", lambda: c('OP_PUSH1 x0102').hex())
tryrun("push1 size val", lambda: c('OP_PUSH1 d2 x0102').hex())
tryrun("push1 val then op", lambda: c('OP_PUSH1 x0102 true').hex())
tryrun("push1 val then END_LOOP", lambda: c('true loop OP_PUSH1 x0102 end_loop').hex())
tryrun("push1 val then @x", lambda: c('OP_PUSH1 x0102 @x').hex())
tryrun("push1 val then push1", lambda: c('OP_PUSH1 x0102 OP_PUSH1 x0304').hex())
tryrun("push1 x01 d2", lambda: c('OP_PUSH1 x01 d2').hex())
tryrun('S"hello"', lambda: c('push S"hello"'))
tryrun('comment brace in def', lambda: c('def 0 { # } # true } false').hex())
tryrun('comment brace in if', lambda: c('true if { # } # true } false').hex())
tryrun('hoist', lambda: c('if ( true ) { false } else { true } push x05').hex())
tryrun('if end_if else', lambda: c('true if false else true end_if push x05').hex())
tryrun('if {} end', lambda: c('true if { false }').hex())
