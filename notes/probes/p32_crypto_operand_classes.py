"""Behaviour table of the crypto instructions on honest and malformed operands (guides refvm for C06)."""
import sys, os, collections
sys.path.insert(0, os.environ.get('VERIF_REPO', '/repo')); sys.path.insert(0, os.path.dirname(os.path.abspath(__file__)))
from tapescript import *
from tapescript import functions as F
import ed
L, p = ed.L, ed.p
def push(v):
    if len(v) == 0: return None
    if len(v) == 1: return b'\x02' + v
    if len(v) < 256: return bytes([3, len(v)]) + v
    return b'\x04' + len(v).to_bytes(2, 'big') + v
def P(*items):
    out = b''
    for i in items:
        if len(i) == 0: out += b'\x02\x00\x02\x00\x21\x06' + b''  # cannot push empty directly: emulate via split? skip
        else: out += push(i)
    return out
op = lambda n: bytes([F.opcodes_inverse[n][0]])
def run(code, cache={}):
    try:
        t, s, c = run_script(code, cache); return 'ok:' + ','.join(x.hex()[:8] + ('…' if len(x) > 4 else '') for x in s.list())
    except BaseException as e: return 'ERR ' + type(e).__name__
seed = bytes(range(32)); A = ed.pub(seed)
G2 = ed.enc(ed.mul(2, ed.G)); G3 = ed.enc(ed.mul(3, ed.G))
# operand classes for points
def find_offcurve():
    y = 2
    while True:
        b = y.to_bytes(32, 'little')
        if ed.dec(b) is None: return b
        y += 1
small_order = [(1).to_bytes(32, 'little'),                      # identity
               (p - 1).to_bytes(32, 'little'),                  # order 2 (y = -1)
               bytes(32),                                       # order 4 (y = 0)
               bytes.fromhex('c7176a703d4dd84fba3c0b760d10670f2a2053fa2c39ccc64ec7fd7792ac037a')]      # order 8
# a point on the curve but outside the prime-order subgroup: G + order-2 point
mixed = ed.enc(ed.add(ed.G, ed.dec(small_order[1])))
noncanon = (p + 3).to_bytes(32, 'little') if ed.dec((3).to_bytes(32, 'little')) is not None else (p + 4).to_bytes(32, 'little')
points = {'honest': G2, 'len31': G2[:31], 'len33': G2 + b'\0', 'offcurve': find_offcurve(), 'identity': small_order[0], 'order2': small_order[1], 'order4': small_order[2], 'order8': small_order[3], 'mixed-subgroup': mixed, 'noncanonical-y': noncanon}
scalars = {'honest': (5).to_bytes(32, 'little'), 'zero': bytes(32), 'L': L.to_bytes(32, 'little'), 'L+1': (L + 1).to_bytes(32, 'little'), 'max': b'\xff' * 32, 'len31': b'\x05' * 31, 'len33': b'\x05' * 33, 'len64': b'\x05' * 64}
print('== is_valid_point mirror vs libsodium')
import nacl.bindings as nb
for k, v in points.items():
    if len(v) == 32: print('  ', k, nb.crypto_core_ed25519_is_valid_point(v))
print('== OP_ADD_POINTS d2 (x, honest)');  [print('  ', k, run(P(G3, v) + op('OP_ADD_POINTS') + b'\x02')) for k, v in points.items()]
print('== OP_SUBTRACT_POINTS d2 (honest - x)');  [print('  ', k, run(P(v, G3) + op('OP_SUBTRACT_POINTS') + b'\x02')) for k, v in points.items()]
print('== OP_DERIVE_POINT');  [print('  ', k, run(P(v) + op('OP_DERIVE_POINT'))) for k, v in scalars.items()]
print('== OP_ADD_SCALARS d2 (x + 5)');  [print('  ', k, run(P(scalars['honest'], v) + op('OP_ADD_SCALARS') + b'\x02')) for k, v in scalars.items()]
print('== OP_SUBTRACT_SCALARS d2 (x - 5)');  [print('  ', k, run(P(scalars['honest'], v) + op('OP_SUBTRACT_SCALARS') + b'\x02')) for k, v in scalars.items()]
print('== OP_CLAMP_SCALAR x00 / x01');  [print('  ', k, run(P(v) + op('OP_CLAMP_SCALAR') + b'\x00'), '|', run(P(v) + op('OP_CLAMP_SCALAR') + b'\x01')) for k, v in scalars.items()]
print('== OP_DERIVE_SCALAR');  [print('  ', k, run(P(v) + op('OP_DERIVE_SCALAR'))) for k, v in {'seed32': seed, 'len1': b'\x01', 'len100': b'a' * 100}.items()]
print('== counts 0 / 1: ADD_POINTS d0, d1; ADD_SCALARS d0, d1; SUBTRACT_POINTS d0 d1; SUBTRACT_SCALARS d0 d1')
for o in ('OP_ADD_POINTS', 'OP_ADD_SCALARS', 'OP_SUBTRACT_POINTS', 'OP_SUBTRACT_SCALARS'):
    print('  ', o, 'd0:', run(P(G2) + op(o) + b'\x00'), '| d1:', run(P(G2) + op(o) + b'\x01'), '| d1 scalar5:', run(P(scalars['honest']) + op(o) + b'\x01'))
m = b'msg'; sig = ed.sign(seed, m)
print('== OP_CHECK_SIG_STACK [sig msg vkey]')
for k, (s_, m_, a_) in {'honest': (sig, m, A), 'badsig': (sig[:-1] + b'\x01', m, A), 'sig63': (sig[:63], m, A), 'sig65': (sig + b'\0', m, A), 'key31': (sig, m, A[:31]), 'key offcurve': (sig, m, points['offcurve']), 'key order8': (sig, m, small_order[3]), 'msg long': (ed.sign(seed, b'z' * 1000), b'z' * 1000, A)}.items():
    print('  ', k, run(P(s_, m_, a_) + op('OP_CHECK_SIG_STACK')))
print('== OP_SIGN_STACK [msg seed]');  [print('  ', k, run(P(m, v) + op('OP_SIGN_STACK'))) for k, v in {'seed32': seed, 'seed31': seed[:31], 'seed64': seed * 2}.items()]
print('== OP_SIGN x00 [seed]');  [print('  ', k, run(P(v) + op('OP_SIGN') + b'\x00', {'sigfield1': m})) for k, v in {'seed32': seed, 'seed31': seed[:31], 'seed64': seed * 2}.items()]
print('== OP_CHECK_SIG x00 [sig vkey]')
for k, (s_, a_) in {'honest': (sig, A), 'sig63': (sig[:63], A), 'sig66': (sig + b'\0\0', A), 'key33': (sig, A + b'\0'), 'key offcurve': (sig, points['offcurve']), 'key order8': (sig, small_order[3]), 'key noncanon': (sig, noncanon)}.items():
    print('  ', k, run(P(s_, a_) + op('OP_CHECK_SIG') + b'\x00', {'sigfield1': m}))
print('== OP_MAKE_ADAPTER_SIG_PUBLIC [seed m T]');  [print('  ', k, run(P(seed, m, v) + op('OP_MAKE_ADAPTER_SIG_PUBLIC'))) for k, v in points.items()]
print('== OP_MAKE_ADAPTER_SIG_PUBLIC seeds');  [print('  ', k, run(P(v, m, G2) + op('OP_MAKE_ADAPTER_SIG_PUBLIC'))) for k, v in {'seed31': seed[:31], 'seed64': seed * 2, 'seed1': b'\x01'}.items()]
print('== OP_CHECK_ADAPTER_SIG [sa R m T X] with X classes');  [print('  ', k, run(P(scalars['honest'], G2, m, G3, v) + op('OP_CHECK_ADAPTER_SIG'))) for k, v in points.items()]
print('== OP_CHECK_ADAPTER_SIG sa classes');  [print('  ', k, run(P(v, G2, m, G3, A) + op('OP_CHECK_ADAPTER_SIG'))) for k, v in scalars.items()]
print('== OP_DECRYPT_ADAPTER_SIG [sa R t] t classes');  [print('  ', k, run(P(scalars['honest'], G2, v) + op('OP_DECRYPT_ADAPTER_SIG'))) for k, v in scalars.items()]
print('== OP_TAPROOT x00 [.. root] root classes (script path, item2 = 32 bytes)');  [print('  ', k, run(P(b'\x01', A, v) + op('OP_TAPROOT') + b'\x00')) for k, v in points.items()]
print('== OP_TAPROOT pubkey classes');  [print('  ', k, run(P(b'\x01', v, G2) + op('OP_TAPROOT') + b'\x00')) for k, v in points.items() if len(v) == 32]
