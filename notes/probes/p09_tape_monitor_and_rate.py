import sys, time, itertools
sys.path.insert(0, '/repo')
import tapescript
from tapescript import functions as F, parsing as P, classes as C
from tapescript import compile_script as c, run_script

class BackwardRead(Exception): pass
class MonTape(C.Tape):
    def __setattr__(self, k, v):
        if k == 'pointer':
            old = self.__dict__.get('pointer')
            if old is not None and v < old and v != 0:
                raise BackwardRead(f'{old}->{v}')
            if not (0 <= v <= len(self.__dict__.get('data', b'')) ) and 'data' in self.__dict__:
                raise BackwardRead(f'oob {v}')
        object.__setattr__(self, k, v)
    def read(self, size, move_pointer=True):
        if size < 0: raise BackwardRead(f'negative read {size}')
        return super().read(size, move_pointer)
P.Tape = MonTape
F.Tape = MonTape
try:
    P.decompile_script(bytes.fromhex('04fffd'))
except BaseException as e:
    print("monitored decompile:", type(e).__name__, e)
t,s,ca = run_script(c('def 0 { true } call d0 call d0 true loop { pop0 false } true if { push x05 }'))
print(s.list(), type(t).__name__)
# rate of exhaustive decompile
t0 = time.time(); n = 0; errs = {}
for a in range(256):
    for b in range(0, 256, 1):
        for cc in (0, 1, 127, 128, 253, 255):
            n += 1
            try: P.decompile_script(bytes((a,b,cc)))
            except BackwardRead as e: errs['BackwardRead'] = errs.get('BackwardRead',0)+1
            except BaseException as e: errs[type(e).__name__] = errs.get(type(e).__name__,0)+1
dt = time.time()-t0
print(n, "cases", round(dt,2), "s", round(n/dt), "/s", errs)
