"""C19 rehearsal: stateful model of the plugin / contract registries with Hypothesis."""
import sys, os
sys.path.insert(0, os.environ.get('VERIF_REPO', '/repo'))
import hypothesis
from hypothesis import settings, strategies as st, seed, HealthCheck
from hypothesis.stateful import RuleBasedStateMachine, rule, invariant, run_state_machine_as_test, initialize
from tapescript import functions as F, run_script
calls = []
def mk(i):
    def plug(tape, stack, cache): calls.append(i)
    plug.__name__ = f'plug{i}'; return plug
PLUGS = [mk(i) for i in range(3)]
SCOPES = ['signature_extensions', 'check_template']
class Con:
    def __init__(self, i): self.i = i
    def abi(self, args): calls.append(('c', self.i)); return None
CONS = [Con(0), Con(1)]; CIDS = [b'\x01' * 4, b'\x02' * 4]
def push(v): return bytes([3, len(v)]) + v
PROBE = b'\x05\x00\x06' + push(b'abc') + b'\x59\x01\x06' + b''.join(b'\x3d' + (lambda b: len(b).to_bytes(2, 'big') + b)(push(b'\x00') + push(cid) + b'\x55') + b'\x00\x00' for cid in CIDS)
class M(RuleBasedStateMachine):
    def __init__(self):
        super().__init__()
        for s in list(F._plugins): F._plugins[s].clear() if s in SCOPES else F._plugins.pop(s)
        F._contracts.clear()
        self.plug = {s: [] for s in SCOPES}; self.con = {}
    @rule(i=st.integers(0, 2), s=st.sampled_from(SCOPES))
    def add(self, i, s):
        F.add_plugin(s, PLUGS[i])
        if PLUGS[i] not in self.plug[s]: self.plug[s].append(PLUGS[i])
    @rule(i=st.integers(0, 2), s=st.sampled_from(SCOPES))
    def remove(self, i, s):
        F.remove_plugin(s, PLUGS[i])
        if PLUGS[i] in self.plug[s]: self.plug[s].remove(PLUGS[i])
    @rule(s=st.sampled_from(SCOPES))
    def reset(self, s):
        F.reset_plugins(s); self.plug[s] = []
    @rule(i=st.integers(0, 1))
    def addc(self, i): F.add_contract(CIDS[i], CONS[i]); self.con[CIDS[i]] = CONS[i]
    @rule(i=st.integers(0, 1))
    def remc(self, i): F.remove_contract(CIDS[i]); self.con.pop(CIDS[i], None)
    @rule()
    def run(self):
        calls.clear()
        cache = {'sigfield1': b'abc'}; before = dict(cache)
        run_script(PROBE, cache)
        assert cache == before
        # GET_MESSAGE: sig plugins once; CHECK_TEMPLATE x01: sig plugins once + ct plugins once
        exp = [PLUGS.index(p) for p in self.plug['signature_extensions']] * 2 + [PLUGS.index(p) for p in self.plug['check_template']]
        got_p = [c for c in calls if not isinstance(c, tuple)]
        assert sorted(got_p) == sorted(exp), (got_p, exp)
        got_c = sorted(c[1] for c in calls if isinstance(c, tuple))
        assert got_c == sorted(CIDS.index(k) for k in self.con), (got_c, self.con)
    @invariant()
    def registry_matches(self):
        for s in SCOPES: assert set(F._plugins.get(s, [])) == set(self.plug[s]), (s, F._plugins.get(s), self.plug[s])
        assert set(F._contracts) == set(self.con)
sd = int(os.environ.get('VERIF_SEED', '1'))
try:
    run_state_machine_as_test(seed(sd)(M), settings=settings(max_examples=300, stateful_step_count=12, deadline=None, database=None, suppress_health_check=list(HealthCheck)))
    print("no failure")
except AssertionError as e:
    print("FAILED:", str(e)[:300])
