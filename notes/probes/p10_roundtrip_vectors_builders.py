import os, glob, sys
sys.path.insert(0,'/repo')
import tapescript as ts
from tapescript import *
from tapescript import tools as T, functions as F
from nacl.signing import SigningKey
c = compile_script
bad = 0; n = 0
def rt(name, b):
    global bad, n
    n += 1
    for sep in ('\n', ' '):
        try:
            src = sep.join(decompile_script(b))
            b2 = c(src)
            if b2 != b:
                bad += 1; print("MISMATCH", name, repr(sep), b.hex()[:60], b2.hex()[:60]); return
        except BaseException as e:
            bad += 1; print("ERR", name, repr(sep), type(e).__name__, str(e)[:80]); return
for f in sorted(glob.glob('/repo/tests/vectors/*.hex')):
    rt(os.path.basename(f), bytes.fromhex(open(f).read().strip()))
# builders
sd = [os.urandom(32) for _ in range(4)]; pk = [bytes(SigningKey(s).verify_key) for s in sd]
sf = {'sigfield1': b'abc', 'sigfield3': b'xyz'}
S = Script.from_src('push x07 equal')
outs = {
 'single_lock': make_single_sig_lock(pk[0]), 'single_lock2': make_single_sig_lock2(pk[0], '03'),
 'single_wit': make_single_sig_witness(sd[0], sf, '01'), 'single_wit2': make_single_sig_witness2(sd[0], sf),
 'multisig': make_multisig_lock(pk, 3), 'sh_lock': make_scripthash_lock(S), 'sh_wit': make_scripthash_witness(S),
 'ad_lock_pub': make_adapter_lock_pub(pk[0], pk[1]), 'ad_locks': make_adapter_locks_prv(pk[0], sd[1])[0],
 'ad_dec': make_adapter_decrypt(sd[1]), 'ad_wit': make_adapter_witness(sd[0], pk[1], sf),
 'dk_lock': make_delegate_key_lock(pk[0]), 'dkc_lock': make_delegate_key_chain_lock(pk[0]),
 'dk_wit': make_delegate_key_witness(sd[1], make_delegate_key_cert(sd[0], pk[1], 10, 2**31-1), sf),
 'dkc_wit': make_delegate_key_chain_witness(sd[2], [make_delegate_key_cert(sd[1], pk[2], 10, 20), make_delegate_key_cert(sd[0], pk[1], 10, 20)], sf),
 'gr_lock': make_graftroot_lock(pk[0]), 'gr_key': make_graftroot_witness_keyspend(sd[0], sf), 'gr_sur': make_graftroot_witness_surrogate(sd[0], S),
 'htlc': make_htlc_sha256_lock(pk[0], pk[1], preimage=b'p'*20), 'htlc_sk': make_htlc_shake256_lock(pk[0], pk[1], preimage=b'p'*20),
 'htlc2': make_htlc2_sha256_lock(pk[0], pk[1], preimage=b'p'*20), 'htlc2_sk': make_htlc2_shake256_lock(pk[0], pk[1], preimage=b'p'*20),
 'htlc_wit': make_htlc_witness(sd[0], b'p'*20, sf), 'htlc2_wit': make_htlc2_witness(sd[0], b'p'*20, sf),
 'ptlc': make_ptlc_lock(pk[0], pk[1]), 'ptlc_wit': make_ptlc_witness(sd[0], sf), 'ptlc_ref': make_ptlc_refund_witness(sd[1], sf),
 'tr': make_taproot_lock(pk[0], S), 'tr_key': make_taproot_witness_keyspend(sd[0], sf, S), 'tr_scr': make_taproot_witness_scriptspend(pk[0], S),
 'ntr': make_nonnative_taproot_lock(pk[0], S), 'gt': make_graftap_lock(pk[0]), 'gt_key': make_graftap_witness_keyspend(sd[0], sf), 'gt_scr': make_graftap_witness_scriptspend(sd[0], S),
 'ts_after': make_timestamp_after_lock(1700000000), 'ts_before': make_timestamp_before_lock(1700000000, True), 'ts_btw': make_timestamp_between_lock(5, 1700000000),
}
lock, unl = make_merklized_script_balanced(['true', 'false', 'push d1'])
outs['mk_lock'] = lock; outs['mk_unl'] = unl[2]
for k, v in outs.items(): rt(k, v.bytes)
print("checked", n, "bad", bad)
