import tapescript as ts, time, os
from tapescript import *
from tapescript import functions as F, parsing as P, tools as T
from nacl.signing import SigningKey, VerifyKey
import nacl.bindings as nb
c = compile_script
def tryrun(label, f):
    try:
        r = f()
        print(label, "->", r)
    except BaseException as e:
        print(label, "RAISED", type(e).__name__, str(e)[:100])

seed = os.urandom(32); tw = os.urandom(32)
X = bytes(SigningKey(seed).verify_key)
t = clamp_scalar(tw); Tp = derive_point_from_scalar(t)
m = b'hello world'
# PRIVATE variant
_, st, ca = run_script(c(f'push x{m.hex()} push x{tw.hex()} push x{seed.hex()} make_adapter_sig_private'))
sa, R, T2 = st.get(), st.get(), st.get()
print("T match", T2 == Tp)
_, st, _ = run_script(c(f'push x{sa.hex()} push x{R.hex()} push x{m.hex()} push x{Tp.hex()} push x{X.hex()} check_adapter_sig'))
print("PRIVATE adapter passes check:", st.get())
# is (R? , sa) in PRIVATE actually already a sig? s=sa => s*G = T+R+cX c=H(R,X,m)
# decrypt
_, st, _ = run_script(c(f'push x{sa.hex()} push x{R.hex()} push x{tw.hex()} decrypt_adapter_sig'))
s, RT = st.get(), st.get()
tryrun("PRIVATE decrypted verifies", lambda: VerifyKey(X).verify(m, RT+s))
# maybe (R+T?, sa)
tryrun("PRIVATE (R, sa - t) verifies", lambda: VerifyKey(X).verify(m, R+nb.crypto_core_ed25519_scalar_sub(sa, t)))
tryrun("PRIVATE (R, sa) verifies", lambda: VerifyKey(X).verify(m, R+sa))
# PUBLIC variant
_, st, ca = run_script(c(f'push x{seed.hex()} push x{m.hex()} push x{Tp.hex()} make_adapter_sig_public'))
sa, R = st.get(), st.get()
_, st, _ = run_script(c(f'push x{sa.hex()} push x{R.hex()} push x{m.hex()} push x{Tp.hex()} push x{X.hex()} check_adapter_sig'))
print("PUBLIC adapter passes check:", st.get())
_, st, _ = run_script(c(f'push x{sa.hex()} push x{R.hex()} push x{tw.hex()} decrypt_adapter_sig'))
s, RT = st.get(), st.get()
tryrun("PUBLIC decrypted verifies", lambda: VerifyKey(X).verify(m, RT+s))
tryrun("PUBLIC adapter itself verifies", lambda: VerifyKey(X).verify(m, R+sa))
print("recover t:", nb.crypto_core_ed25519_scalar_sub(s, sa) == nb.crypto_core_ed25519_scalar_reduce(t+b'\0'*32))
# unclamped tweak scalar: T = t*G noclamp with bit 255 set?
tw2 = b'\xff'*32
t2 = clamp_scalar(tw2); T2p = derive_point_from_scalar(t2)
print("t2 >= L?", int.from_bytes(t2,'little') >= 2**252+27742317777372353535851937790883648493)
_, st, ca = run_script(c(f'push x{seed.hex()} push x{m.hex()} push x{T2p.hex()} make_adapter_sig_public'))
sa, R = st.get(), st.get()
_, st, _ = run_script(c(f'push x{sa.hex()} push x{R.hex()} push x{tw2.hex()} decrypt_adapter_sig'))
s, RT = st.get(), st.get()
tryrun("big t decrypted verifies", lambda: VerifyKey(X).verify(m, RT+s))
# edge scalar 0
tryrun("T from 0 scalar", lambda: derive_point_from_scalar(b'\0'*32).hex())
tryrun("T from 1 scalar", lambda: derive_point_from_scalar(b'\1'+b'\0'*31).hex())

# C19 reset_plugins
def p1(*a): pass
def p2(*a): pass
def p3(*a): pass
for p in (p1,p2,p3): F.add_plugin('signature_extensions', p)
F.reset_plugins('signature_extensions')
print("after reset:", len(F._plugins['signature_extensions']))
F._plugins['signature_extensions'].clear()
# assemble default macros leak
P.assemble(get_symbols('!= foo [ ] { true }'))
tryrun("macro leak", lambda: P.assemble(get_symbols('!foo [ ]')).hex())
tryrun("macro leak compile_script", lambda: compile_script('!foo [ ]').hex())
# C16 before lock far-future
now = int(time.time())
lock = make_timestamp_before_lock(now+10)
for tt in [now, now+9, now+10, now+50, now+59+0, now+60, now+70, now+100]:
    print("before-lock ts=now+10, t=now+%d ->" % (tt-now), run_auth_scripts([lock], {'timestamp': tt}))
