#!/venv/bin/python
import sys, os
sys.path.insert(0, '/verif/.deps'); sys.path.insert(0, os.environ.get('VERIF_REPO', '/repo'))
import atheris
with atheris.instrument_imports(include=['tapescript']):
    import tapescript
from tapescript import run_auth_scripts
from tapescript import functions as F
F.token_bytes = lambda n: bytes(min(max(n, 0), 1 << 20)) if n <= (1 << 20) else (_ for _ in ()).throw(MemoryError())
def one(data):
    fdp = atheris.FuzzedDataProvider(data)
    cl = fdp.PickValueInList([1, 2, 3, 8, 16])
    n = fdp.ConsumeIntInRange(1, 3)
    scripts = [fdp.ConsumeBytes(fdp.ConsumeIntInRange(0, 60)) for _ in range(n - 1)] + [fdp.ConsumeBytes(fdp.remaining_bytes())]
    r = run_auth_scripts(scripts, {'sigfield1': b'abc'}, callstack_limit=cl, stack_max_items=16, stack_max_item_size=64)
    assert r in (True, False)
atheris.Setup(sys.argv, one)
atheris.Fuzz()
