"""C14 rehearsal: delegation chain lock vs acceptance predicate, with boundary times and corruptions."""
import sys, os, random, collections
sys.path.insert(0, os.environ.get('VERIF_REPO', '/repo'))
from tapescript import *
from tapescript import functions as F, tools as T
from nacl.signing import SigningKey
rnd = random.Random(int(sys.argv[1]) if len(sys.argv) > 1 else 1)
stats = collections.Counter()
def setclock(x): F.time = T.time = (lambda: x)
def sk(): return bytes(rnd.randrange(256) for _ in range(32))
for trial in range(int(sys.argv[2]) if len(sys.argv) > 2 else 300):
    t = rnd.randint(10**6, 2**31 - 10**4); slack = rnd.choice([0, 0, 30, 59, 60, 61]); now = t - slack
    setclock(now + 0.4)
    root = sk(); rpk = bytes(SigningKey(root).verify_key)
    n = rnd.randint(1, 5); dels = [sk() for _ in range(n)]; dpk = [bytes(SigningKey(s).verify_key) for s in dels]
    sf = {'sigfield1': b'msg' + bytes([trial % 256])}
    certs = []; ok_windows = True; ok_deleg = True
    signer = root
    for i in range(n):
        b = t + rnd.choice([-100, -1, 0, 0, 1]); e = t + rnd.choice([100, 2, 1, 1, 0])
        b = max(b, 0); e = min(max(e, 0), 2**31 - 1)
        can = rnd.random() < 0.8 or i == n - 1 and rnd.random() < 0.5
        certs.append(make_delegate_key_cert(signer, dpk[i], b, e, can))
        if not (b <= t < e): ok_windows = False
        if i < n - 1 and not can: ok_deleg = False
        signer = dels[i]
    final_signer = dels[-1]; chain_ok = True
    corr = rnd.choice(['none', 'none', 'wrong_final', 'swap', 'drop', 'flip_sig', 'flip_pk', 'flip_ts', 'flip_can', 'resign_wrong', 'splice', 'other_fields'])
    packed = [c.pack() for c in certs]
    sfw = dict(sf)
    if corr == 'wrong_final': final_signer = sk(); chain_ok = False
    elif corr == 'swap' and n >= 2:
        i = rnd.randrange(n - 1); packed[i], packed[i+1] = packed[i+1], packed[i]; chain_ok = False
    elif corr == 'drop' and n >= 2:
        i = rnd.randrange(n - 1); del packed[i]; chain_ok = False      # removing a non-final link breaks the signature chain
    elif corr in ('flip_sig', 'flip_pk', 'flip_ts', 'flip_can'):
        i = rnd.randrange(len(packed)); b = bytearray(packed[i])
        pos = {'flip_sig': rnd.randrange(41, 105), 'flip_pk': rnd.randrange(0, 32), 'flip_ts': rnd.randrange(32, 40), 'flip_can': 40}[corr]
        b[pos] ^= 1 << rnd.randrange(8); packed[i] = bytes(b); chain_ok = False
    elif corr == 'resign_wrong':
        i = rnd.randrange(n); c = certs[i]; packed[i] = make_delegate_key_cert(sk(), c.delegate_pubkey, c.begin_ts, c.end_ts, c.can_further_delegate).pack(); chain_ok = False
    elif corr == 'splice':
        i = rnd.randrange(n); other_root = sk(); packed[i] = make_delegate_key_cert(other_root, dpk[i], t - 5, t + 5, True).pack(); chain_ok = False
    elif corr == 'other_fields': sfw = {'sigfield1': b'different'}; chain_ok = False
    else: corr = 'none' if corr not in ('none',) and chain_ok else corr
    w = make_delegate_key_chain_witness(final_signer, list(reversed(packed)), sfw)
    lock = make_delegate_key_chain_lock(rpk)
    got = run_auth_scripts([w, lock], {**sf, 'timestamp': t})
    exp = chain_ok and ok_windows and ok_deleg and slack < 60
    k = ('agree ' if got == exp else 'DISAGREE ') + str(got)
    stats[k] += 1
    if got != exp and stats[k] <= 6: print('DIS', dict(n=n, corr=corr, windows=ok_windows, deleg=ok_deleg, slack=slack, got=got, exp=exp))
    # single-cert lock with the first cert when n == 1
    if n == 1 and corr == 'none':
        w1 = make_delegate_key_witness(dels[0], certs[0], sf); l1 = make_delegate_key_lock(rpk)
        got1 = run_auth_scripts([w1, l1], {**sf, 'timestamp': t}); exp1 = ok_windows and slack < 60
        stats[('single agree ' if got1 == exp1 else 'SINGLE DISAGREE ') + str(got1)] += 1
    c0 = certs[0]; assert T.Certificate.unpack(c0.pack()) == c0
print(dict(stats))
