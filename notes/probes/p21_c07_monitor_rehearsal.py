"""C07 rehearsal: harness-side monitors (no repo change) on resource-hungry programs x limit triples."""
import sys, os, random, collections, tracemalloc, resource
sys.path.insert(0, os.environ.get('VERIF_REPO', '/repo'))
from collections import deque
from tapescript import functions as F, classes as C, parsing as P
from tapescript import int_to_bytes, ScriptExecutionError
resource.setrlimit(resource.RLIMIT_AS, (4 << 30, 4 << 30))

class MonitorViolation(BaseException): pass
VIOL = []
def viol(kind, detail=''):
    VIOL.append((kind, detail))
    raise MonitorViolation(kind)      # record, then abort the case: continuing can be arbitrarily expensive

FRAMES = []      # activation frames: [tape, last_read_offset]
class MonTape(C.Tape):
    def read(self, size, move_pointer=True):
        if VIOL: raise MonitorViolation('aborting')
        if size < 0: viol('negative read', size)
        fr = next((f for f in reversed(FRAMES) if f[0] is self), None)
        if fr is not None:
            if self.pointer < fr[1]: viol('backward read', (fr[1], self.pointer))
            fr[1] = self.pointer
        r = super().read(size, move_pointer)
        if not (0 <= self.pointer <= len(self.data)): viol('pointer out of range', self.pointer)
        return r
    def reset_pointer(self):
        self.__dict__['_resets'] = self.__dict__.get('_resets', 0) + 1
        if self._resets > self.callstack_limit: viol('loop iterations exceed limit', self._resets); raise MonitorViolation('loop')
        fr = next((f for f in reversed(FRAMES) if f[0] is self), None)
        super().reset_pointer()
class MonDeque(deque):
    def __init__(self, stack, **kw): super().__init__(**kw); self._s = stack; self.hw = 0
    def _chk(self):
        self.hw = max(self.hw, len(self))
        if len(self) > self._s.max_items: viol('stack over max_items', len(self))
    def append(self, x):
        if self.maxlen is not None and len(self) >= self.maxlen: viol('append to full deque (silent drop)', len(self))
        if len(x) > self._s.max_item_size: viol('item over max_item_size', len(x))
        super().append(x); self._chk()
    def __setitem__(self, i, x):
        if len(x) > self._s.max_item_size: viol('item over max_item_size', len(x))
        super().__setitem__(i, x)
    def appendleft(self, x): viol('appendleft'); super().appendleft(x)
    def extend(self, it): viol('extend'); super().extend(it)
    def insert(self, i, x): viol('insert'); super().insert(i, x)
orig_run_tape = F.run_tape
PENDING = [False]; CHAIN = [0]
def mon_run_tape(tape, stack, cache, additional_flags={}):
    is_call = PENDING[0]; PENDING[0] = False
    FRAMES.append([tape, tape.pointer])
    if is_call:
        CHAIN[0] += 1
        if CHAIN[0] > tape.callstack_limit: viol('call chain deeper than limit', (CHAIN[0], tape.callstack_limit))
    if tape.callstack_count > tape.callstack_limit: viol('callstack_count over limit', (tape.callstack_count, tape.callstack_limit))
    try: return orig_run_tape(tape, stack, cache, additional_flags)
    finally:
        FRAMES.pop()
        if is_call: CHAIN[0] -= 1
def chain_wrap(fn):
    def w(tape, stack, cache):
        PENDING[0] = True
        try: return fn(tape, stack, cache)
        finally: PENDING[0] = False
    w.__name__ = fn.__name__; return w
def install():
    F.Tape = MonTape; F.run_tape = mon_run_tape
    for name in ('OP_CALL', 'OP_EVAL'):
        w = chain_wrap(getattr(F, name)); setattr(F, name, w)
        code = F.opcodes_inverse[name][0]; F.opcodes[code] = (name, w)
install()
def run(code, limits):
    mi, ms, cl = limits
    VIOL.clear(); FRAMES.clear(); CHAIN[0] = 0
    tape = MonTape(code, callstack_limit=cl); stack = C.Stack(max_items=mi, max_item_size=ms)
    stack.deque = MonDeque(stack, maxlen=mi)
    cache = {'timestamp': 1, 'sigfield1': b'abc'}
    tracemalloc.start(); base = tracemalloc.get_traced_memory()[0]
    try:
        F.run_tape(tape, stack, cache); out = 'ok'
    except ScriptExecutionError as e: out = 'SEE:' + str(e)[:40]
    except MonitorViolation: out = 'monitor'
    except (RecursionError, MemoryError, SystemError) as e: out = 'INTERP:' + type(e).__name__
    except BaseException as e: out = 'other:' + type(e).__name__
    peak = tracemalloc.get_traced_memory()[1] - base; tracemalloc.stop()
    return out, peak, stack.deque.hw

rnd = random.Random(int(sys.argv[1]) if len(sys.argv) > 1 else 1)
def push(v):
    if len(v) == 1: return b'\x02' + v
    if len(v) < 256: return bytes([3, len(v)]) + v
    return b'\x04' + len(v).to_bytes(2, 'big') + v
L2 = lambda b: len(b).to_bytes(2, 'big')
def hungry(depth=0):
    r = rnd.random(); out = b''
    for _ in range(rnd.randint(1, 5)):
        k = rnd.choice(['push', 'copy', 'dupcat', 'loopgrow', 'rec_call', 'rec_eval', 'nest', 'mult', 'shake', 'random', 'trunc', 'reverse', 'pops', 'depthloop'])
        if k == 'push': out += push(bytes(rnd.choice([1, 2, 31, 32, 33, 64, 255, 256, 1024, 1025])))
        elif k == 'copy': out += b'\x01\x1c' + bytes([rnd.choice([0, 1, 2, 15, 255])])
        elif k == 'dupcat': out += push(b'ab') + b'\x1d\x37' * rnd.choice([1, 3, 12])
        elif k == 'loopgrow':
            body = rnd.choice([b'\x1d\x37', b'\x1d', b'\x01', push(b'x' * 40), b'\x1d\x10\x02'])
            out += push(b'\x01\x01') + b'\x45' + L2(body) + body
        elif k == 'rec_call': out += b'\x29\x00' + L2(b'\x01\x2a\x00') + b'\x01\x2a\x00' + b'\x2a\x00'
        elif k == 'rec_eval': out += push(b'\x1d\x2d') + b'\x1d\x2d'
        elif k == 'nest' and depth < 2:
            inner = hungry(depth + 1)
            for _ in range(rnd.choice([1, 3, 10, 40])):
                c = rnd.choice(['if', 'try', 'loop'])
                inner = {'if': b'\x01\x2b' + L2(inner) + inner, 'try': b'\x3d' + L2(inner) + inner + b'\x00\x00', 'loop': b'\x01\x45' + L2(b'\x06' + inner + b'\x00') + b'\x06' + inner + b'\x00'}[c]
                if len(inner) > 60000: break
            out += inner
        elif k == 'mult': out += push(b'\x7f' * rnd.choice([8, 64, 512])) + b'\x1c' + bytes([rnd.choice([1, 3, 20])]) + b'\x10' + bytes([rnd.choice([2, 4, 21])])
        elif k == 'shake': out += b'\x01\x1f' + bytes([rnd.choice([0, 1, 64, 255])])
        elif k == 'random': out += push(int_to_bytes(rnd.choice([0, 1, 32, 1024, 1025, 2**16, 2**20, -1]))) + b'\x2f'
        elif k == 'trunc': out += rnd.choice([b'\x03\x20ab', b'\x04\xff\xff', b'\x2b\x00\x10\x01', b'\x29\x00\x00', b'\x09\x05ab', b'\x3c' + b'\x00' * 10])
        elif k == 'reverse': out += b'\x36' + bytes([rnd.choice([0, 1, 3, 255])])
        elif k == 'pops': out += b'\x07' + bytes([rnd.choice([0, 1, 3, 255])])
        elif k == 'depthloop': out += b'\x01\x45\x00\x02\x33\x33'     # loop { depth depth }
    if rnd.random() < 0.2: out = out[:rnd.randrange(len(out) + 1)]
    return out
LIMS = [(mi, ms, cl) for mi in (1, 2, 3, 5, 16, 1024) for ms in (1, 2, 4, 32, 33, 64, 1024) for cl in (1, 2, 3, 8, 128)]
stats = collections.Counter(); hits = collections.Counter()
N = int(sys.argv[2]) if len(sys.argv) > 2 else 5000
for i in range(N):
    code = hungry(); lim = rnd.choice(LIMS)
    out, peak, hw = run(code, lim)
    stats[out.split(':')[0]] += 1
    if out.startswith('SEE:'): hits[out[4:]] += 1
    bound = (8 << 20) + 8 * lim[0] * lim[1] + 4 * len(code) * 50
    if peak > bound: VIOL.append(('memory', peak))
    if out.startswith('INTERP'): VIOL.append((out, ''))
    if VIOL:
        stats['VIOLATION'] += 1
        if stats['VIOLATION'] <= 8: print('VIOL', lim, code.hex()[:80], VIOL[:2], out)
print(dict(stats)); print('limit errors seen:', hits.most_common(8))
