"""C17 + C03 rehearsal."""
import sys, os, random, itertools, collections
sys.path.insert(0, os.environ.get('VERIF_REPO', '/repo')); sys.path.insert(0, os.path.dirname(os.path.abspath(__file__)))
from tapescript import *
from tapescript import functions as F
import ed
rnd = random.Random(int(sys.argv[1]) if len(sys.argv) > 1 else 1)
L = ed.L
def push(v):
    if len(v) == 0: raise ValueError
    if len(v) == 1: return b'\x02' + v
    if len(v) < 256: return bytes([3, len(v)]) + v
    return b'\x04' + len(v).to_bytes(2, 'big') + v
def P(*items): return b''.join(push(i) for i in items)
def top(code, cache={}):
    try:
        t, s, c = run_script(code, cache); return s.list()
    except BaseException as e: return 'ERR:' + type(e).__name__
stats = collections.Counter()
OPS = F.opcodes_inverse
op = lambda n: bytes([OPS[n][0]])
for trial in range(int(sys.argv[2]) if len(sys.argv) > 2 else 60):
    seed = bytes(rnd.randrange(256) for _ in range(32)); X = ed.pub(seed)
    m = bytes(rnd.randrange(256) for _ in range(rnd.choice([1, 5, 64, 300, 512])))
    kind = rnd.choice(['rand', 'clamped', 'one', 'Lm1', 'Lp1', 'max'])
    tb = {'rand': bytes(rnd.randrange(256) for _ in range(32)), 'clamped': None, 'one': (1).to_bytes(32, 'little'), 'Lm1': (L-1).to_bytes(32, 'little'), 'Lp1': (L+1).to_bytes(32, 'little'), 'max': b'\xff' * 32}[kind]
    if tb is None: tb = clamp_scalar(bytes(rnd.randrange(256) for _ in range(32)), True)
    t_int = int.from_bytes(clamp_scalar(tb), 'little')          # DECRYPT clamps bit 255 away
    T = ed.enc(ed.mul(t_int % L, ed.G))
    assert T == derive_point_from_scalar(clamp_scalar(tb)), kind
    r = top(P(seed, m, T) + op('OP_MAKE_ADAPTER_SIG_PUBLIC'))
    R, sa = r
    # check passes
    chk = top(P(sa, R, m, T, X) + op('OP_CHECK_ADAPTER_SIG')); stats['check ok' if chk == [b'\xff'] else 'CHECK FAIL'] += 1
    # decrypt
    RT, s = top(P(sa, R, tb) + op('OP_DECRYPT_ADAPTER_SIG'))
    okref = ed.verify(X, m, RT + s); stats['decrypt verifies (ref)' if okref else 'DECRYPT INVALID'] += 1
    assert RT == ed.enc(ed.add(ed.dec(R), ed.dec(T)))
    assert (int.from_bytes(s, 'little') - int.from_bytes(sa, 'little')) % L == t_int % L; stats['t recovered'] += 1
    stats['adapter itself invalid' if not ed.verify(X, m, R + sa) else 'ADAPTER IS A SIG'] += 1
    t2 = bytes(rnd.randrange(256) for _ in range(32))
    RT2, s2 = top(P(sa, R, t2) + op('OP_DECRYPT_ADAPTER_SIG'))
    stats['wrong scalar invalid' if not ed.verify(X, m, RT2 + s2) else 'WRONG SCALAR VALID'] += 1
    # single-bit corruptions of each input
    for name, val in (('sa', sa), ('R', R), ('m', m), ('T', T), ('X', X)):
        for _ in range(4):
            c = bytearray(val); c[rnd.randrange(len(c))] ^= 1 << rnd.randrange(8)
            args = {'sa': sa, 'R': R, 'm': m, 'T': T, 'X': X}; args[name] = bytes(c)
            out = top(P(args['sa'], args['R'], args['m'], args['T'], args['X']) + op('OP_CHECK_ADAPTER_SIG'))
            stats['corrupt -> not true' if out != [b'\xff'] else 'CORRUPT ACCEPTED ' + name] += 1
print('C17', dict(stats))
# ---------------- C03
stats = collections.Counter()
sf = {'sigfield1': b'abc', 'sigfield2': b'defg'}
def msg(flag): return b''.join(sf[f'sigfield{i}'] for i in (1, 2) if not (flag >> (i - 1)) & 1)
for trial in range(int(sys.argv[3]) if len(sys.argv) > 3 else 300):
    n = rnd.randint(1, 5); m_ = rnd.randint(0, n)
    seeds = [bytes([i + 1, trial % 256]) * 16 for i in range(n)]; keys = [ed.pub(s) for s in seeds]
    outsider = bytes([99]) * 32
    allowed = rnd.choice([0, 1, 3])
    items = []; signers = []
    for j in range(m_):
        k = rnd.choice(['valid', 'valid', 'valid', 'outsider', 'dup', 'flagvar', 'badflag', 'flip'])
        if k == 'dup' and items: items.append(items[-1]); signers.append(signers[-1]); continue
        i = rnd.randrange(n); flag = 0
        if k == 'flagvar': flag = rnd.choice([f for f in (1, 2, 3) if f & ~allowed == 0] or [0])
        if k == 'badflag': flag = rnd.choice([f for f in (1, 2, 3, 4) if f & ~allowed] )
        sd = outsider if k == 'outsider' else seeds[i]
        sig = ed.sign(sd, msg(flag)) + (bytes([flag]) if flag else b'')
        if k == 'flip': b = bytearray(sig); b[3] ^= 4; sig = bytes(b)
        items.append(sig); signers.append(('bad', j) if k in ('outsider', 'flip') else ('badflag', j) if k == 'badflag' else i)
    good = all(isinstance(s, int) for s in signers) and len(set(signers)) == len(signers)
    perms_k = list(itertools.permutations(range(n)))[:6]; perms_s = list(itertools.permutations(range(m_)))[:6]
    verdicts = set()
    for pk_, ps_ in itertools.product(perms_k, perms_s):
        code = P(*[items[j] for j in ps_]) if m_ else b''
        code += P(*[keys[i] for i in pk_]) + op('OP_CHECK_MULTISIG') + bytes([allowed, m_, n])
        out = top(code, sf)
        v = out == [b'\xff']; verdicts.add(v)
        if v and not good: stats['ACCEPTED BAD'] += 1; print('bad accepted', signers)
        if not v and good: stats['REJECTED GOOD'] += 1; print('good rejected', signers, out)
        if isinstance(out, str) and not any(isinstance(s, tuple) and s[0] == 'badflag' for s in signers): stats['ERROR WITHOUT MALFORMED ' + out] += 1
    stats['perm invariant' if len(verdicts) == 1 else 'PERM VARIANT'] += 1
    stats['good' if good else 'bad'] += 1
print('C03', dict(stats))
