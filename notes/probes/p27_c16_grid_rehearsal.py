"""C16 rehearsal: exhaustive boundary grid for CHECK_TIMESTAMP / CHECK_EPOCH (+VERIFY) and the three builders."""
import sys, os, itertools, collections
sys.path.insert(0, os.environ.get('VERIF_REPO', '/repo'))
from tapescript import *
from tapescript import functions as F, tools as T
stats = collections.Counter()
def setclock(x): F.time = T.time = (lambda: x)
def push(v): return bytes([3, len(v)]) + v if len(v) != 1 else b'\x02' + v
def run1(code, t, flags):
    try:
        _, s, _ = run_script(code, {'timestamp': t}, additional_flags=flags); return s.list()
    except ScriptExecutionError as e: return 'SEE'
    except BaseException as e: return 'ERR:' + type(e).__name__
for c in (0, 1, 255, 256, 2**31 - 1, 2**32, 2**63 - 1, 1_700_000_000):
    for thr in (-1, 0, 1, 2, 60, 2**31):
        for dt in range(-2, 3):                 # t - c
            for dn in range(-2, 3):             # (t - now) - thr
                t = c + dt
                if t < 0: continue
                now = t - thr - dn
                if now < 0: continue
                for frac in (0.0, 0.999):
                    setclock(now + frac if now < 2**52 else now)
                    for nbytes in (None, 9):
                        enc = int_to_bytes(c) if nbytes is None else c.to_bytes(nbytes, 'big')
                        exp_ts = t >= c and (thr <= 0 or t - now < thr)
                        got = run1(push(enc) + b'\x25', t, {'ts_threshold': thr})
                        stats['ts ok' if got == [b'\xff' if exp_ts else b'\x00'] else 'TS MISMATCH'] += 1
                        if got != [b'\xff' if exp_ts else b'\x00'] and stats['TS MISMATCH'] <= 5: print('ts', dict(c=c, thr=thr, t=t, now=now, frac=frac, nbytes=nbytes), got, exp_ts)
                        got = run1(push(enc) + b'\x26' + b'\x01', t, {'ts_threshold': thr})
                        stats['tsv ok' if got == ([b'\xff'] if exp_ts else 'SEE') else 'TSV MISMATCH'] += 1
                        if thr >= 0:
                            exp_ep = c - now < thr
                            got = run1(push(enc) + b'\x27', t, {'epoch_threshold': thr})
                            stats['ep ok' if got == [b'\xff' if exp_ep else b'\x00'] else 'EP MISMATCH'] += 1
                            if got != [b'\xff' if exp_ep else b'\x00'] and stats['EP MISMATCH'] <= 5: print('ep', dict(c=c, thr=thr, t=t, now=now, frac=frac, nbytes=nbytes), got, exp_ep)
                            got = run1(push(enc) + b'\x28' + b'\x01', t, {'epoch_threshold': thr})
                            stats['epv ok' if got == ([b'\xff'] if exp_ep else 'SEE') else 'EPV MISMATCH'] += 1
# builders (default threshold 60)
NOW = 1_700_000_000
for ts in (NOW - 100, NOW, NOW + 10, NOW + 100):
    for t in sorted({ts - 2, ts - 1, ts, ts + 1, ts + 2, NOW + 58, NOW + 59, NOW + 60, NOW + 61, NOW + 1000}):
        setclock(NOW + 0.5); within = t - NOW < 60
        for verify in (False, True):
            pre = [b'\x01'] if verify else []
            for name, lock, exp in (('after', make_timestamp_after_lock(ts, verify), t >= ts and within),
                                    ('before', make_timestamp_before_lock(ts, verify), t < ts),
                                    ('between', make_timestamp_between_lock(ts - 50, ts, verify), ts - 50 <= t < ts and within)):
                got = run_auth_scripts(pre + [lock.bytes], {'timestamp': t})
                if got == exp: stats[name + ' ok'] += 1
                else:
                    stats[name.upper() + ' MISMATCH'] += 1
                    if stats[name.upper() + ' MISMATCH'] <= 3: print(name, 'ts-NOW', ts - NOW, 't-NOW', t - NOW, 'got', got, 'exp', exp)
print(dict(stats))
