"""C12 rehearsal: round trip of compiler output through the decompiler, using the C11 rehearsal generator."""
import sys, os, collections, random, importlib.util, io, contextlib
sys.argv = [sys.argv[0]] + sys.argv[1:]
seed = int(sys.argv[1]) if len(sys.argv) > 1 else 1; N = int(sys.argv[2]) if len(sys.argv) > 2 else 5000
src_code = open(os.path.join(os.path.dirname(os.path.abspath(__file__)), 'p11b_c11_rehearsal_with_sugar.py')).read()
src_code = src_code.split("stats = collections.Counter(); examples = {}")[0]     # generator part only
sys.argv = ['x', str(seed)]
g = {}; exec(compile(src_code, 't11b_gen', 'exec'), g)
from tapescript import compile_script, decompile_script
stats = collections.Counter(); ex = {}
for i in range(N):
    src, ref = g['genseq'](0)
    try: b = compile_script(src)
    except BaseException: stats['compile rejected'] += 1; continue
    for sep in ('\n', ' '):
        try:
            lst = decompile_script(b); b2 = compile_script(sep.join(lst))
            k = 'roundtrip ok' if b2 == b else 'ROUNDTRIP DIFF'
        except BaseException as e:
            k = 'ROUNDTRIP ERR ' + type(e).__name__ + ' ' + str(e)[:40]
        stats[k] += 1
        if k != 'roundtrip ok' and (k not in ex or len(b) < len(ex[k])): ex[k] = b
for k, v in stats.most_common(): print(v, k)
for k, b in ex.items(): print(k, '::', b.hex()[:120], '::', (decompile_script(b) if 'ERR' not in k or 'recompile' in k else '')[:3] if True else '')
