import sys, random, os, collections
sys.path.insert(0, os.environ.get('VERIF_REPO','/repo'))
from tapescript import run_script
random.seed(int(sys.argv[1]) if len(sys.argv)>1 else 1)
FALSE,TRUE,PUSH0,POP0,DUP,VERIFY,DEF,CALL,IF,IFELSE,EVAL,NOT,RETURN,TRY,LOOP,PUSH1,DEPTH = 0,1,2,6,29,32,41,42,43,44,45,46,48,61,69,3,51
class Err(Exception): pass
class Ret(Exception): pass
def ref_run(code, stack, defs, st, loopsem):
    """returns True if RETURN executed (propagating)"""
    p = 0
    def rd(n):
        nonlocal p
        if p + n > len(code): raise Err('read')
        b = code[p:p+n]; p += n; return b
    def pop():
        if not stack: raise Err('empty')
        return stack.pop()
    def put(x):
        if len(x) > 1024 or len(stack) >= 1024: raise Err('full')
        stack.append(x)
    while p < len(code):
        op = rd(1)[0]
        st['steps'] += 1
        if st['steps'] > 20000: raise Err('steps')
        if op == FALSE: put(b'\x00')
        elif op == TRUE: put(b'\xff')
        elif op == PUSH0: put(rd(1))
        elif op == PUSH1:
            n = rd(1)[0]; put(rd(n))
        elif op == POP0: pop()
        elif op == DUP:
            x = pop(); put(x); put(x)
        elif op == DEPTH:
            n = len(stack); put(bytes([n]) if n < 128 else n.to_bytes(2,'big'))
        elif op == VERIFY:
            if not any(pop()): raise Err('verify')
        elif op == NOT:
            x = pop(); put(bytes(b ^ 0xff for b in x))
        elif op == RETURN: return True
        elif op == DEF:
            h = rd(1); n = int.from_bytes(rd(2),'big'); defs[h] = rd(n)
        elif op == CALL:
            if st['calls'] >= st['limit']: st['budget'] = True
            h = rd(1)
            st['calls'] += 1
            if h not in defs: raise Err('nodef')
            ref_run(defs[h], stack, defs, st, loopsem)
        elif op == EVAL:
            if st['calls'] >= st['limit']: st['budget'] = True
            st['calls'] += 1
            s = pop()
            if not s: raise Err('empty eval')
            ref_run(s, stack, dict(defs), st, loopsem)
        elif op == IF:
            n = int.from_bytes(rd(2),'big'); body = rd(n)
            if any(pop()):
                st['scoped'].append(dict(defs))
                d2 = dict(defs)
                r = ref_run(body, stack, d2, st, loopsem)
                if d2 != defs: st['defscope'] = True
                if r: return True
        elif op == IFELSE:
            n = int.from_bytes(rd(2),'big'); a = rd(n); n = int.from_bytes(rd(2),'big'); b = rd(n)
            d2 = dict(defs)
            r = ref_run(a if any(pop()) else b, stack, d2, st, loopsem)
            if d2 != defs: st['defscope'] = True
            if r: return True
        elif op == TRY:
            n = int.from_bytes(rd(2),'big'); a = rd(n); n = int.from_bytes(rd(2),'big'); b = rd(n)
            d2 = dict(defs)
            try:
                r = ref_run(a, stack, d2, st, loopsem)
            except Err as e:
                if str(e) == 'steps': raise
                d2 = dict(defs)
                r = ref_run(b, stack, d2, st, loopsem)
            if d2 != defs: st['defscope'] = True
            if r: return True
        elif op == LOOP:
            n = int.from_bytes(rd(2),'big'); body = rd(n)
            if not stack: raise Err('peek')
            cnt = 0
            while any(stack[-1]):
                if cnt >= st['limit']: raise Err('loop limit')
                r = ref_run(body, stack, defs, st, loopsem)
                if r:
                    st['loopret'] = True
                    if loopsem == 'propagate': return True
                    break
                cnt += 1
                if not stack: raise Err('peek')
        else:
            raise Err('unknown op')
    return False
def gen(depth):
    out = b''
    for _ in range(random.randint(0, 5)):
        r = random.random()
        if depth < 3 and r < 0.3:
            k = random.choice([IF, IF, IFELSE, TRY, LOOP, DEF, 'evalpush'])
            a = gen(depth+1); b = gen(depth+1)
            if k == IF: out += bytes([IF]) + len(a).to_bytes(2,'big') + a
            elif k == LOOP: out += bytes([LOOP]) + len(a).to_bytes(2,'big') + a
            elif k == DEF: out += bytes([DEF, random.randint(0,2)]) + len(a).to_bytes(2,'big') + a
            elif k == 'evalpush':
                if 0 < len(a) < 256: out += bytes([PUSH1, len(a)]) + a + bytes([EVAL])
            else: out += bytes([k]) + len(a).to_bytes(2,'big') + a + len(b).to_bytes(2,'big') + b
        elif r < 0.4: out += bytes([CALL, random.randint(0,2)])
        elif r < 0.5: out += bytes([RETURN])
        else:
            op = random.choice([FALSE, TRUE, TRUE, POP0, DUP, VERIFY, NOT, DEPTH, PUSH0])
            out += bytes([op]) + (bytes([random.choice([0,1,255])]) if op == PUSH0 else b'')
    return out
stats = collections.Counter(); ex = {}
N = int(sys.argv[2]) if len(sys.argv)>2 else 20000
for i in range(N):
    code = gen(0)
    outs = []
    meta = None
    for sem in ('break','propagate'):
        st = {'steps':0,'calls':0,'limit':128,'budget':False,'scoped':[],'defscope':False,'loopret':False}
        stack = []
        try:
            ref_run(code, stack, {}, st, sem); outs.append(('ok', list(stack)))
        except Err as e:
            outs.append(('err', None) if str(e)!='steps' else ('steps',None))
        except RecursionError:
            outs.append(('steps', None))
        meta = st
    if any(o[0]=='steps' for o in outs) or meta['budget']: stats['skipped']+=1; continue
    try:
        t, s, c = run_script(code); real = ('ok', s.list())
    except RecursionError: stats['recursion']+=1; continue
    except BaseException as e: real = ('err', None)
    if real in outs: stats['agree' + ('-loopret' if meta['loopret'] else '')] += 1
    else:
        k = 'DISAGREE' + ('-loopret' if meta['loopret'] else '') + ('-defscope' if meta['defscope'] else '')
        stats[k] += 1
        if k not in ex or len(code) < len(ex[k][0]): ex[k] = (code, outs, real)
print(dict(stats))
for k, (code, outs, real) in ex.items(): print(k, code.hex(), outs, real)
