from tapescript import int_to_bytes, bytes_to_int, uint_to_bytes, float_to_bytes, bytes_to_float
import struct, random, math
bad = []
def check(n):
    try:
        b = int_to_bytes(n)
    except BaseException as e:
        bad.append((n if abs(n) < 2**80 else f"~2^{n.bit_length()}*{'-' if n<0 else '+'}", 'enc', type(e).__name__, str(e)[:60])); return
    try:
        ok = bytes_to_int(b) == n and ((b[0] >> 7) == (1 if n < 0 else 0))
    except BaseException as e:
        bad.append((n, 'dec', type(e).__name__)); return
    if not ok:
        bad.append((n if abs(n) < 2**80 else f"2^{n.bit_length()}", 'mismatch', b[:4].hex(), len(b)))
for n in range(-2**17, 2**17+1): check(n)
print("small bad", bad[:5])
for k in list(range(1, 300)) + [511,512,513,1023,1024,1025,4095,4096,8191,8192,16383,16384]:
    for d in range(-3, 4):
        for s in (1, -1):
            check(s*(2**k + d))
print("pow2 bad", len(bad)); print(bad[:20])
random.seed(1)
nb = len(bad)
for _ in range(20000):
    bits = random.randint(1, 8192)
    n = random.getrandbits(bits) * random.choice((1,-1))
    check(n)
# all-ones patterns
for k in range(1, 2000):
    check(2**k - 1); check(-(2**k - 1)); check(-(2**k))
print("total bad", len(bad)); print(bad[nb:nb+20])
# nonminimal count
nonmin = 0
for k in range(1, 300):
    for d in range(-3,4):
        for s in (1,-1):
            n = s*(2**k+d)
            try:
                b = int_to_bytes(n)
                ref = n.to_bytes((n.bit_length() + 8)//8 if n>=0 else ((-n-1).bit_length()+8)//8, 'big', signed=True)
                if b != ref: nonmin += 1
            except: pass
print("nonminimal", nonmin)
# floats
for pat in [0x7fa00000, 0x7fc00000, 0xffc00001, 0x7f800000, 0xff800000, 0x00000001, 0x80000000, 0x7f7fffff, 0x7f800001]:
    b = pat.to_bytes(4,'big')
    f = bytes_to_float(b)
    try:
        b2 = float_to_bytes(f)
    except BaseException as e:
        b2 = type(e).__name__
    print(hex(pat), f, b2.hex() if isinstance(b2, bytes) else b2, b2 == b)
try:
    print(float_to_bytes(1e39))
except BaseException as e: print("1e39", type(e).__name__, e)
print(float_to_bytes(0.1).hex(), bytes_to_float(float_to_bytes(0.1)))
