"""C20 rehearsal: NOP semantics (enumerated) and soft-fork compatibility (two VMs via fork)."""
import sys, os, random, collections, pickle
sys.path.insert(0, os.environ.get('VERIF_REPO', '/repo'))
from tapescript import run_script, run_auth_scripts, compile_script, decompile_script, add_soft_fork, bytes_to_int, ScriptExecutionError
from tapescript import functions as F
stats = collections.Counter()
# ---- part 1: all codes x all count bytes x depths
for code in (range(92, 256) if os.environ.get('P1') else []):
    for cnt in range(256):
        signed = cnt - 256 if cnt > 127 else cnt
        for depth in sorted({0, 1, max(signed - 1, 0), max(signed, 0), max(signed, 0) + 1, 130}):
            pre = b''.join(bytes([2, i % 251]) for i in range(depth))
            try:
                t, s, c = run_script(pre + bytes([code, cnt]) + b'\x01', {}); out = ('ok', s.list())
            except ScriptExecutionError as e: out = ('see',)
            except IndexError: out = ('index',)
            except BaseException as e: out = ('other', type(e).__name__)
            if signed < 0: exp = ('see',)
            elif signed > depth: exp = ('index',)
            else: exp = ('ok', [bytes([i % 251]) for i in range(depth - signed)] + [b'\xff'])
            stats['p1 ok' if out == exp else 'P1 MISMATCH'] += 1
            if out != exp and stats['P1 MISMATCH'] < 4: print('p1', code, cnt, depth, out, exp)
    # compile / decompile naming
    for cnt in (0, 1, 127, 128, 255):
        b = compile_script(f'NOP{code} x{cnt:02x}'); assert b == bytes([code, cnt]), (code, cnt, b)
        assert decompile_script(b)[0].split()[0] == f'NOP{code}'
print(dict(stats))
# ---- part 2: upgraded VM in a forked child
def make_op(kind):
    def op(tape, stack, cache):
        n = bytes_to_int(tape.read(1))
        if n < 0: raise ScriptExecutionError('negative')
        items = [stack.get() for _ in range(n)]
        if kind == 'all_equal' and len(set(items)) > 1: raise ScriptExecutionError('not equal')
        if kind == 'first_true' and items and not any(items[0]): raise ScriptExecutionError('first false')
        if kind == 'always': raise ScriptExecutionError('always')
    return op
rnd = random.Random(1)
L2 = lambda b: len(b).to_bytes(2, 'big')
def gen_script(code, depth=0):
    out = b''
    for _ in range(rnd.randint(1, 5)):
        r = rnd.random()
        if r < 0.35: out += bytes([2, rnd.choice([0, 1, 1, 7])])
        elif r < 0.6: out += bytes([code, rnd.choice([0, 1, 2, 2, 3, 128, 255])])
        elif r < 0.8 and depth < 2:
            inner = gen_script(code, depth + 1); k = rnd.choice(['if', 'loop', 'def', 'eval'])
            if k == 'if': out += b'\x01\x2b' + L2(inner) + inner
            elif k == 'loop': out += b'\x01\x45' + L2(b'\x06' + inner + b'\x00') + b'\x06' + inner + b'\x00\x06'
            elif k == 'def': out += b'\x29\x01' + L2(inner) + inner + b'\x2a\x01'
            elif k == 'eval' and 0 < len(inner) < 250: out += bytes([3, len(inner)]) + inner + b'\x2d'
        else: out += rnd.choice([b'\x01', b'\x1d', b'\x06', b'\x21', b'\x33\x06'])
    return out
def child_eval(code, kind, name, aliases, scripts, srcs, wfd):
    add_soft_fork(code, name, make_op(kind), aliases)
    res = []
    for s in scripts:
        try: t, st, c = run_script(s, {}); full = ('ok', st.list(), {k: v for k, v in c.items() if isinstance(k, bytes)})
        except BaseException as e: full = ('err', type(e).__name__)
        res.append((run_auth_scripts([s + b'']), full))
    comp = []
    for src in srcs:
        try: comp.append(compile_script(src))
        except BaseException as e: comp.append('ERR ' + type(e).__name__ + ' ' + str(e)[:60])
    dec = decompile_script(bytes([code, 3]))
    os.write(wfd, pickle.dumps((res, comp, dec))); os._exit(0)
for trial in range(40):
    code = rnd.randint(92, 255); kind = rnd.choice(['all_equal', 'first_true', 'never', 'always'])
    name = 'OP_FORK_TEST'; aliases = ['FKT']
    scripts = [gen_script(code) + rnd.choice([b'', b'\x01']) for _ in range(150)]
    srcs_new = [s.replace('{n}', nm) for nm in ('OP_FORK_TEST', 'op_fork_test', 'FKT', 'fkt') for s in ['{n} d3 true', '{n} x83 true', 'true if { {n} d1 }', 'try { {n} d1 }', 'true loop { {n} d0 pop0 false }', 'def 0 { {n} d1 }']]
    srcs_old = [s.replace('{n}', f'NOP{code}') for _ in range(4) for s in ['{n} d3 true', '{n} x83 true', 'true if { {n} d1 }', 'try { {n} d1 }', 'true loop { {n} d0 pop0 false }', 'def 0 { {n} d1 }']]
    r, w = os.pipe(); pid = os.fork()
    if pid == 0:
        os.close(r); child_eval(code, kind, name, aliases, scripts, srcs_new, w)
    os.close(w); data = b''
    while True:
        chunk = os.read(r, 1 << 20)
        if not chunk: break
        data += chunk
    os.waitpid(pid, 0); new_res, new_comp, dec = pickle.loads(data)
    assert dec == ['OP_FORK_TEST d3'], dec
    for s, (new_auth, new_full) in zip(scripts, new_res):
        old_auth = run_auth_scripts([s])
        try: t, st, c = run_script(s, {}); old_full = ('ok', st.list(), {k: v for k, v in c.items() if isinstance(k, bytes)})
        except BaseException as e: old_full = ('err', type(e).__name__)
        if new_auth and not old_auth: stats['SOFTFORK VIOLATION'] += 1; print('viol', code, kind, s.hex())
        elif new_auth: stats['new auth => old auth'] += 1
        elif old_auth: stats['old only (fork rejected)'] += 1
        else: stats['neither'] += 1
        if new_full[0] == 'ok' and new_full != old_full: stats['STATE DIFF'] += 1; print('state', code, kind, s.hex(), new_full, old_full)
    for sn, so, cn in zip(srcs_new, srcs_old, new_comp):
        try: co = compile_script(so)
        except BaseException as e: co = 'ERR'
        if isinstance(cn, bytes) and isinstance(co, bytes):
            stats['compile same' if cn == co else 'COMPILE DIFF'] += 1
            if cn != co: print('cdiff', sn, cn.hex(), co.hex())
        else:
            stats['compile reject new' if not isinstance(cn, bytes) else 'compile reject old'] += 1
            if not isinstance(cn, bytes) and trial < 2: print('   new-VM reject:', sn, '->', cn)
print(dict(stats))
