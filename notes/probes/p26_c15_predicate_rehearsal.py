"""C15 rehearsal: HTLC/PTLC acceptance predicate over the full witness x lock x key x time grid."""
import sys, os, random, itertools, collections, hashlib
sys.path.insert(0, os.environ.get('VERIF_REPO', '/repo'))
from tapescript import *
from tapescript import functions as F, tools as T
from nacl.signing import SigningKey
rnd = random.Random(int(sys.argv[1]) if len(sys.argv) > 1 else 1)
stats = collections.Counter()
def setclock(x): F.time = T.time = (lambda: x)
for trial in range(int(sys.argv[2]) if len(sys.argv) > 2 else 40):
    BUILD = rnd.randint(10**9, 2 * 10**9); timeout = rnd.choice([1, 60, 1000, 86400])
    deadline = BUILD + timeout
    seeds = {k: bytes(rnd.randrange(256) for _ in range(32)) for k in ('recv', 'refund', 'out')}
    pks = {k: bytes(SigningKey(v).verify_key) for k, v in seeds.items()}
    pre = bytes(rnd.randrange(256) for _ in range(rnd.choice([1, 16, 32, 64]))); wrong = bytes([pre[0] ^ 1]) + pre[1:]
    hs = rnd.choice([1, 20, 32, 64])
    tw = clamp_scalar(bytes(rnd.randrange(256) for _ in range(32))); TP = derive_point_from_scalar(tw)
    sf = {'sigfield1': bytes(rnd.randrange(256) for _ in range(8))}
    setclock(BUILD + 0.7)
    locks = {
        'htlc_sha': make_htlc_sha256_lock(pks['recv'], pks['refund'], preimage=pre, timeout=timeout),
        'htlc_shake': make_htlc_shake256_lock(pks['recv'], pks['refund'], preimage=pre, hash_size=hs, timeout=timeout),
        'htlc2_sha': make_htlc2_sha256_lock(pks['recv'], pks['refund'], preimage=pre, timeout=timeout),
        'htlc2_shake': make_htlc2_shake256_lock(pks['recv'], pks['refund'], preimage=pre, hash_size=hs, timeout=timeout),
        'ptlc': make_ptlc_lock(pks['recv'], pks['refund'], timeout=timeout),
        'ptlc_tw': make_ptlc_lock(pks['recv'], pks['refund'], tweak_point=TP, timeout=timeout),
    }
    for who, p_kind in itertools.product(('recv', 'refund', 'out'), ('right', 'wrong', 'one')):
        p = {'right': pre, 'wrong': wrong, 'one': b'\x00' if pre != b'\x00' else b'\x01'}[p_kind]
        wits = {
            'htlc': make_htlc_witness(seeds[who], p, sf), 'htlc2': make_htlc2_witness(seeds[who], p, sf),
            'ptlc': make_ptlc_witness(seeds[who], sf), 'ptlc_tw': make_ptlc_witness(seeds[who], sf, tweak_scalar=tw),
            'ptlc_refund': make_ptlc_refund_witness(seeds[who], sf),
        }
        for t_off, now_off in ((-1, 0), (0, 0), (1, 0), (0, -59), (0, -60), (5, -100)):
            t = deadline + t_off; now = t + now_off if now_off else t
            now = t - (-now_off) if now_off else t          # now = t - slack used
            setclock(now + 0.3)
            slack_ok = (t - now) < 60
            for (wn, w), (ln, l) in itertools.product(wits.items(), locks.items()):
                got = run_auth_scripts([w, l], {**sf, 'timestamp': t})
                # predicate over the typed stack the witness leaves
                stackmodel = {'htlc': [('sig', who, False), ('bytes', p)], 'htlc2': [('sig', who, False), ('pk', who), ('bytes', p)],
                              'ptlc': [('sig', who, False), ('bytes', b'\xff')], 'ptlc_tw': [('sig', who, True), ('bytes', b'\xff')],
                              'ptlc_refund': [('sig', who, False), ('bytes', b'\x00')]}[wn][:]
                def raw(it): return p if it == ('bytes', p) else it[1] if it[0] == 'bytes' else pks[it[1]] if it[0] == 'pk' else b'S' * 64
                time_ok = t >= deadline and slack_ok
                def final_sig(need_who, need_tw):
                    return len(stackmodel) == 1 and stackmodel[0][0] == 'sig' and stackmodel[0][1] == need_who and stackmodel[0][2] == need_tw
                if ln.startswith('htlc'):
                    x = raw(stackmodel.pop())
                    dig = hashlib.sha256(pre).digest() if ln.endswith('sha') else hashlib.shake_256(pre).digest(hs)
                    hx = hashlib.sha256(x).digest() if ln.endswith('sha') else hashlib.shake_256(x).digest(hs)
                    branch_recv = hx == dig
                    need = 'recv' if branch_recv else 'refund'
                    ok = branch_recv or time_ok
                    if ln.startswith('htlc2'):
                        ok = ok and bool(stackmodel) and stackmodel[-1] == ('pk', need)
                        if stackmodel: stackmodel.pop()
                    exp = ok and final_sig(need, False)
                else:
                    sel = raw(stackmodel.pop())
                    if any(sel): exp = final_sig('recv', ln == 'ptlc_tw')
                    else: exp = time_ok and final_sig('refund', False)
                if got == exp: stats['agree ' + str(got)] += 1
                else:
                    stats['DISAGREE'] += 1
                    if stats['DISAGREE'] < 10: print('DIS', wn, ln, who, p_kind, 't-deadline', t_off, 't-now', t - now, 'got', got, 'exp', exp)
print(dict(stats))
