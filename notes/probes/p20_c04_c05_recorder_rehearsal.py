"""C04/C05 rehearsal: recorder contract as first instruction of every leaf / committed script;
honest proofs run exactly one leaf, corrupted proofs run nothing."""
import sys, os, random, hashlib, itertools, collections
sys.path.insert(0, os.environ.get('VERIF_REPO', '/repo'))
from tapescript import *
from tapescript import functions as F
from nacl.signing import SigningKey
rnd = random.Random(int(sys.argv[1]) if len(sys.argv) > 1 else 1)
sha = lambda b: hashlib.sha256(b).digest()
def xor(a, b): return bytes(x ^ y for x, y in zip(a, b))
CID = b'\xee' * 8
class Rec:
    def __init__(self): self.seen = []
    def abi(self, args): self.seen.append(args[0]); return None
def push(v):
    if len(v) == 1: return b'\x02' + v
    if len(v) < 256: return bytes([3, len(v)]) + v
    return b'\x04' + len(v).to_bytes(2, 'big') + v
def leaf_script(tag, body):
    return Script.from_bytes(push(tag) + push(b'\x01') + push(CID) + b'\x55' + body)
BODIES = [b'\x01', b'\x00', b'\x20', b'\x02\x07\x21', b'\x06\x01']   # true / false / verify / push 7 equal / pop0 true
def rand_tree(n):
    leaves = [leaf_script(bytes([i, rnd.randrange(256)]), rnd.choice(BODIES)) for i in range(n)]
    nodes = [ScriptLeaf.from_script(l) for l in leaves]
    order = list(nodes)
    while len(nodes) > 1:
        i = rnd.randrange(len(nodes) - 1)
        nodes[i:i+2] = [ScriptNode(nodes[i], nodes[i+1])]
    return nodes[0], order
def ref_valid(items, root):
    """items: list of (sibling_commitment, script) from innermost... as the stack would present: last pair is verified first by the lock"""
    # emulate: lock MERKLEVAL root consumes top two items (script on top); script itself is MERKLEVAL <inner root> for inner nodes
    return None
stats = collections.Counter()
def run(pre, unlock_bytes, lock):
    rec = Rec()
    ok = run_auth_scripts([pre, unlock_bytes, lock.bytes], {}, {CID: rec})
    return ok, rec.seen
for trial in range(int(sys.argv[2]) if len(sys.argv) > 2 else 300):
    n = rnd.randint(2, 8)
    tree, leaves = rand_tree(n)
    lock = tree.locking_script()
    # serialisation
    t2 = ScriptNode.unpack(tree.pack()); assert t2.root() == tree.root(); stats['pack ok'] += 1
    for li, leaf in enumerate(leaves):
        tag = leaf.script.bytes[2:4]
        for pre in (b'', b'\x01', b'\x02\x07'):
            own_rec = Rec(); own = run_auth_scripts([pre, leaf.script.bytes], {}, {CID: own_rec})
            ok, seen = run(pre, leaf.unlocking_script().bytes, lock)
            if ok != own or seen != [tag]:
                stats['COMPLETENESS FAIL'] += 1; print('completeness', n, li, pre.hex(), ok, own, seen)
            else: stats['honest ok'] += 1
        # data-level corruptions: the proof is a list of (sibling commitment, script) pairs pushed with well-formed pushes
        pairs = []; node = leaf
        while node.parent is not None:
            sib = node.parent.right if node.parent.left is node else node.parent.left
            pairs.append([sib.commitment(), node.script.bytes if isinstance(node, ScriptLeaf) else node.locking_script().bytes])
            node = node.parent
        honest = b''.join(push(a) + push(b) for a, b in pairs)
        assert honest == leaf.unlocking_script().bytes
        for _ in range(6):
            cp = [[bytearray(a), bytearray(b)] for a, b in pairs]
            kind = rnd.choice(['flip_script', 'flip_sibling', 'swap_levels', 'drop_level', 'swap_pair'])
            if kind == 'flip_script': t = cp[rnd.randrange(len(cp))][1]; t[rnd.randrange(len(t))] ^= 1 << rnd.randrange(8)
            elif kind == 'flip_sibling': t = cp[rnd.randrange(len(cp))][0]; t[rnd.randrange(len(t))] ^= 1 << rnd.randrange(8)
            elif kind == 'swap_levels':
                if len(cp) < 2: continue
                i, j = rnd.sample(range(len(cp)), 2); cp[i], cp[j] = cp[j], cp[i]
            elif kind == 'drop_level':
                if len(cp) < 2: continue
                del cp[rnd.randrange(1, len(cp))]
            elif kind == 'swap_pair': t = cp[rnd.randrange(len(cp))]; t[0], t[1] = t[1], t[0]
            w = b''.join(push(bytes(a)) + push(bytes(b)) for a, b in cp)
            ok, seen = run(b'\x01', w, lock)
            if ok or seen:
                stats['BINDING FAIL ' + kind] += 1; print('binding', kind, n, li, ok, seen)
            else: stats['corrupt rejected, nothing ran: ' + kind] += 1
        # foreign leaf with recorder
        foreign = leaf_script(b'\xfa\xfa', b'\x01')
        sib = (leaf.parent.right if leaf.parent.left is leaf else leaf.parent.left).commitment()
        ok, seen = run(b'', push(sib) + push(foreign.bytes) + leaf.parent.unlocking_script().bytes, lock)
        if ok or seen: stats['FOREIGN FAIL'] += 1; print('foreign ran', seen)
        else: stats['foreign rejected'] += 1
# builders
for n in range(1, 25):
    srcs = [leaf_script(bytes([i, 0]), b'\x01') for i in range(n)]
    for mk in (make_merklized_script_prioritized, make_merklized_script_balanced):
        F.token_bytes = lambda k: os.urandom(k)
        lock, unlocks = mk(list(srcs))
        for i in range(n):
            ok, seen = run(b'', unlocks[i].bytes, lock)
            if not ok or seen != [bytes([i, 0])]: stats['BUILDER FAIL'] += 1; print(mk.__name__, n, i, ok, seen)
            else: stats['builder ok'] += 1
# taproot script path
for trial in range(200):
    seed = bytes(rnd.randrange(256) for _ in range(32)); pk = bytes(SigningKey(seed).verify_key)
    S = leaf_script(b'\x77\x01', rnd.choice(BODIES))
    for lockf in (make_taproot_lock, make_nonnative_taproot_lock):
        lock = lockf(pk, S)
        w = make_taproot_witness_scriptspend(pk, S)
        own_rec = Rec(); own = run_auth_scripts([b'\x02\x07', S.bytes], {}, {CID: own_rec})
        ok, seen = run(b'\x02\x07', w.bytes, lock)
        if ok != own or seen != [b'\x77\x01']: stats['TR COMPLETENESS FAIL'] += 1; print('tr', lockf.__name__, ok, own, seen)
        else: stats['tr honest ok'] += 1
        S2 = leaf_script(b'\x78\x02', b'\x01'); other = bytes(SigningKey(bytes(32)).verify_key)
        for wb in (make_taproot_witness_scriptspend(pk, S2).bytes, make_taproot_witness_scriptspend(other, S).bytes):
            ok, seen = run(b'', wb, lock)
            if ok or seen: stats['TR BINDING FAIL'] += 1; print('tr binding', lockf.__name__, ok, seen)
            else: stats['tr wrong pair rejected, nothing ran'] += 1
print(dict(stats))
