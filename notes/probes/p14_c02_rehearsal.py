import sys, os, time, collections
sys.path.insert(0, '/repo'); sys.path.insert(0, __import__('os').path.dirname(__file__))
from tapescript import run_script, ScriptExecutionError
import ed
seed = bytes(range(32)); pk = ed.pub(seed)
fields = {f'sigfield{i}': bytes([i])*i for i in (1,2,3,5,8)}   # 4,6,7 absent
def msg(flag): return b''.join(fields[f'sigfield{i}'] for i in range(1,9) if f'sigfield{i}' in fields and not (flag >> (i-1)) & 1)
sigs = {}
t0 = time.time()
stats = collections.Counter()
# SIGN / GET_MESSAGE exactness for all flags
for f in range(256):
    _, st, _ = run_script(bytes([5, f]), fields); assert st.get() == msg(f), f
    _, st, _ = run_script(bytes([3, 32]) + seed + bytes([72, f]), fields)
    s = st.get(); ref = ed.sign(seed, msg(f)) + (bytes([f]) if f else b'')
    assert s == ref, f
    sigs[f] = s
print("SIGN/GET_MESSAGE exact for 256 flags", round(time.time()-t0,1), "s")
t0 = time.time()
for f in range(256):
    push_sig = bytes([3, len(sigs[f])]) + sigs[f]; push_pk = bytes([3, 32]) + pk
    for allowed in range(256):
        code = push_sig + push_pk + bytes([35, allowed])
        try:
            _, st, _ = run_script(code, fields); r = st.get()
        except ScriptExecutionError: r = 'SEE'
        except BaseException as e: r = type(e).__name__
        exp = b'\xff' if (f & ~allowed) == 0 else 'SEE'
        stats[r == exp] += 1
        if r != exp: print("MISMATCH", f, allowed, r)
print(dict(stats), round(time.time()-t0,1), "s")
