import sys, random, collections
sys.path.insert(0, __import__('os').environ.get('VERIF_REPO','/repo'))
from tapescript import compile_script
from tapescript.functions import opcodes_inverse, opcode_aliases
random.seed(int(sys.argv[1]) if len(sys.argv)>1 else 1)
OPN = {k:v[0] for k,v in opcodes_inverse.items()}
inv_alias = collections.defaultdict(list)
for a, n in opcode_aliases.items(): inv_alias[n].append(a)
NOARG = ['OP_FALSE','OP_TRUE','OP_POP0','OP_SIZE','OP_DUP','OP_SHA256','OP_VERIFY','OP_EQUAL','OP_EVAL','OP_NOT','OP_RETURN','OP_DEPTH','OP_SWAP2','OP_CONCAT','OP_LESS','OP_XOR','OP_SPLIT','OP_DIV_INTS','OP_READ_CACHE_STACK']
BYTE1 = ['OP_POP1','OP_ADD_INTS','OP_COPY','OP_SHAKE256','OP_REVERSE','OP_CHECK_SIG','OP_SIGN','OP_CALL','OP_GET_MESSAGE','OP_TAPROOT','OP_CLAMP_SCALAR']
def case(s):
    r = random.random()
    return s.upper() if r<0.4 else s.lower() if r<0.8 else ''.join(ch.upper() if random.random()<.5 else ch.lower() for ch in s)
def name(op):
    return case(random.choice([op] + inv_alias[op]))
def comment():
    if random.random() < 0.15:
        q = random.choice(['#','"',"'"])
        words = ' '.join(random.choice(['hello','x01','d5','if','{','}','end_if','else','push','true','(',')','~','@x']) for _ in range(random.randint(0,3)))
        return f' {q} {words} {q} '
    return ' '
def gen(depth=0):
    """returns (src, bytes)"""
    r = random.random()
    if depth < 3 and r < 0.25:
        kind = random.choice(['if','ifelse','try','loop','def'] if depth==0 else ['if','ifelse','try','loop'])
        a_src, a_b = genseq(depth+1); b_src, b_b = genseq(depth+1)
        brace = random.random() < 0.6
        if not brace and kind in ('ifelse','try'):
            a_src += ' OP_DUP '; a_b += bytes([OPN['OP_DUP']])
        if kind == 'if':
            hoist = random.random()<0.3
            h_src, h_b = genseq(depth+1) if hoist else ('', b'')
            hs = f' ( {h_src} ) ' if hoist else ' '
            src = f'{case(random.choice(["if","op_if"]))}{hs}' + (f'{{ {a_src} }}' if brace else f'{a_src} {case("end_if")}')
            return src, h_b + bytes([OPN['OP_IF']]) + len(a_b).to_bytes(2,'big') + a_b
        if kind == 'ifelse':
            src = f'{case(random.choice(["if","op_if"]))} ' + (f'{{ {a_src} }} {case("else")} {{ {b_src} }}' if brace else f'{a_src} {case("else")} {b_src} {case("end_if")}')
            return src, bytes([OPN['OP_IF_ELSE']]) + len(a_b).to_bytes(2,'big') + a_b + len(b_b).to_bytes(2,'big') + b_b
        if kind == 'try':
            exc = random.random()<0.6
            if not exc: b_src, b_b = '', b''
            if brace:
                src = f'{case(random.choice(["try","op_try"]))} {{ {a_src} }}' + (f' {case("except")} {{ {b_src} }}' if exc else '')
            else:
                if not exc: 
                    src = f'{case("try")} {{ {a_src} }}'
                else:
                    src = f'{case("try")} {a_src} {case("except")} {b_src} {case("end_except")}'
            return src, bytes([OPN['OP_TRY_EXCEPT']]) + len(a_b).to_bytes(2,'big') + a_b + len(b_b).to_bytes(2,'big') + b_b
        if kind == 'loop':
            src = f'{case(random.choice(["loop","op_loop"]))} ' + (f'{{ {a_src} }}' if brace else f'{a_src} {case("end_loop")}')
            return src, bytes([OPN['OP_LOOP']]) + len(a_b).to_bytes(2,'big') + a_b
        if kind == 'def':
            n = random.randint(0,255)
            nm = random.choice([str(n), f'd{n}', f'x{n:02x}'])
            src = f'{case(random.choice(["def","op_def"]))} {nm} ' + (f'{{ {a_src} }}' if brace else f'{a_src} {case("end_def")}')
            return src, bytes([OPN['OP_DEF'], n]) + len(a_b).to_bytes(2,'big') + a_b
    if r < 0.5:
        op = random.choice(NOARG); return name(op), bytes([OPN[op]])
    if r < 0.7:
        op = random.choice(BYTE1); v = random.randint(0,255)
        sv = v-256 if v>127 else v
        arg = random.choice([f'x{v:02x}', f'd{sv}'])
        return f'{name(op)} {arg}', bytes([OPN[op], v])
    if r < 0.9:
        ln = random.choice([1,1,2,3,32,255,256,300])
        val = bytes(random.randrange(256) for _ in range(ln))
        enc = bytes([OPN['OP_PUSH0']])+val if ln==1 else bytes([OPN['OP_PUSH1'], ln])+val if ln<256 else bytes([OPN['OP_PUSH2']])+ln.to_bytes(2,'big')+val
        hx = val.hex(); hx = hx.upper() if random.random()<.3 else hx
        return f'{case(random.choice(["push","op_push"]))} x{hx}', enc
    if r < 0.92:
        n = random.randint(-300, 300)
        from tapescript import int_to_bytes
        val = int_to_bytes(n)
        enc = bytes([OPN['OP_PUSH0']])+val if len(val)==1 else bytes([OPN['OP_PUSH1'], len(val)])+val
        return f'{case("push")} d{n}', enc
    rr = random.random()
    if rr < 0.55:
        import struct
        from tapescript import int_to_bytes
        k = random.choice(['str', 'var_set', 'var_setn', 'var_size', 'macro', 'comptime', 'comptime_exec', 'push1', 'push2', 'swap', 'cms', 'merkleval', 'divfloat', 'getvalue', 'nop', 'divint', 'wc_d', 'flag'])
        vname = random.choice(['a', 'xy', 'Var1', 'P'])
        if k == 'str':
            w = random.choice(['hello', 'hello world', 'a#b', "it's", 'Ünï', 'x'])
            q = '"' if '"' not in w and random.random() < 0.5 else "'"
            if q in w: q = '"'
            v = w.encode()
            enc = bytes([OPN['OP_PUSH0']]) + v if len(v) == 1 else bytes([OPN['OP_PUSH1'], len(v)]) + v
            return f'{case("push")} s{q}{w}{q}', enc
        if k == 'var_set':
            vals = [bytes(random.randrange(256) for _ in range(random.choice([1, 2, 5]))) for _ in range(random.randint(0, 3))]
            enc = b''.join(bytes([OPN['OP_PUSH0']]) + v if len(v) == 1 else bytes([OPN['OP_PUSH1'], len(v)]) + v for v in vals)
            nb = vname.encode()
            return '@= ' + vname + ' [ ' + ' '.join('x' + v.hex() for v in vals) + ' ]', enc + bytes([OPN['OP_WRITE_CACHE'], len(nb)]) + nb + bytes([len(vals)])
        if k == 'var_setn':
            n = random.randint(0, 9); nb = vname.encode()
            return f'@= {vname} {n}', bytes([OPN['OP_WRITE_CACHE'], len(nb)]) + nb + bytes([n])
        if k == 'var_size':
            nb = vname.encode(); return f'@#{vname}', bytes([OPN['OP_READ_CACHE_SIZE'], len(nb)]) + nb
        if k == 'macro':
            mname = random.choice(['foo', 'Bar2']); v = random.randrange(256); c2 = random.randint(0, 127)
            src = f'!= {mname} [ arg1 arg2 ] {{ push arg1 {case("copy")} arg2 }} !{mname} [ x{v:02x} d{c2} ]'
            return src, bytes([OPN['OP_PUSH0'], v, OPN['OP_COPY'], c2])
        if k == 'comptime':
            s2, b2 = genseq(3)
            if not b2 or '~' in s2: return name('OP_DUP'), bytes([OPN['OP_DUP']])
            enc = bytes([OPN['OP_PUSH0']]) + b2 if len(b2) == 1 else bytes([OPN['OP_PUSH1'], len(b2)]) + b2 if len(b2) < 256 else bytes([OPN['OP_PUSH2']]) + len(b2).to_bytes(2, 'big') + b2
            return f'{case("push")} ~ {{ {s2} }}', enc
        if k == 'comptime_exec':
            import hashlib
            v = bytes(random.randrange(256) for _ in range(random.choice([1, 4, 40]))); d = hashlib.sha256(v).digest()
            return f'push ~! {{ push x{v.hex()} sha256 }}', bytes([OPN['OP_PUSH1'], 32]) + d
        if k in ('push1', 'push2'):
            ln = random.choice([0, 1, 2, 200]) if k == 'push1' else random.choice([0, 1, 255, 256, 700])
            v = bytes(random.randrange(256) for _ in range(ln))
            withsize = random.random() < 0.7
            src = f'{name("OP_PUSH1" if k == "push1" else "OP_PUSH2")} ' + (f'd{ln} ' if withsize else '') + f'x{v.hex()}'
            enc = (bytes([OPN['OP_PUSH1'], ln]) if k == 'push1' else bytes([OPN['OP_PUSH2']]) + ln.to_bytes(2, 'big')) + v
            return (src + ' ' + name('OP_DUP'), enc + bytes([OPN['OP_DUP']])) if not withsize else (src, enc)
        if k == 'swap':
            i, j = random.randrange(256), random.randrange(256)
            return f'{name("OP_SWAP")} ' + random.choice([f'd{i} d{j}', f'x{i:02x} x{j:02x}', f'd{i} x{j:02x}']), bytes([OPN['OP_SWAP'], i, j])
        if k == 'cms':
            f_, m_, n_ = random.randrange(256), random.randrange(256), random.randrange(256); opn = random.choice(['OP_CHECK_MULTISIG', 'OP_CHECK_MULTISIG_VERIFY'])
            return f'{name(opn)} x{f_:02x} d{m_} d{n_}', bytes([OPN[opn], f_, m_, n_])
        if k == 'merkleval':
            d = bytes(random.randrange(256) for _ in range(32)); return f'{name("OP_MERKLEVAL")} x{d.hex()}', bytes([OPN['OP_MERKLEVAL']]) + d
        if k == 'divfloat':
            opn = random.choice(['OP_DIV_FLOAT', 'OP_MOD_FLOAT']); x = random.choice([2, -3, 10, 0]); raw = struct.pack('!f', float(x))
            return f'{name(opn)} ' + random.choice([f'f{x}', f'x{raw.hex()}']), bytes([OPN[opn]]) + raw
        if k == 'getvalue':
            w = random.choice(['timestamp', 'sigfield1', 'a b']); opn = random.choice(['OP_GET_VALUE', 'OP_READ_CACHE', 'OP_READ_CACHE_SIZE', 'OP_SET_FLAG', 'OP_UNSET_FLAG'])
            return f'{name(opn)} s"{w}"', bytes([OPN[opn], len(w)]) + w.encode()
        if k == 'nop':
            c3 = random.randint(92, 255); v = random.randrange(256); sv = v - 256 if v > 127 else v
            return f'{case("nop")}{c3} ' + random.choice([f'd{sv}', f'x{v:02x}']), bytes([c3, v])
        if k == 'divint':
            opn = random.choice(['OP_DIV_INT', 'OP_MOD_INT']); n = random.choice([0, 1, -1, 127, 128, -129, 70000]); raw = int_to_bytes(n)
            return f'{name(opn)} ' + random.choice([f'd{n}', f'x{raw.hex()}']), bytes([OPN[opn], len(raw)]) + raw
        if k == 'wc_d':
            n = random.choice([0, 1, 255, 256, 65535, 65536]); nb = n.to_bytes(max(1, (n.bit_length() + 7) // 8), 'big'); cnt = random.randint(0, 255)
            return f'{name("OP_WRITE_CACHE")} d{n} ' + random.choice([f'd{cnt}', f'x{cnt:02x}']), bytes([OPN['OP_WRITE_CACHE'], len(nb)]) + nb + bytes([cnt])
        if k == 'flag':
            n = random.randrange(0, 11); return f'{name(random.choice(["OP_SET_FLAG"]))} d{n}', bytes([OPN['OP_SET_FLAG'], 1, n])
    key = bytes(random.choice(b'abcxyzPE') for _ in range(random.randint(1,3)))
    cnt = random.randint(0,3)
    if random.random()<0.5:
        return f'{name("OP_WRITE_CACHE")} x{key.hex()} d{cnt}', bytes([OPN['OP_WRITE_CACHE'], len(key)]) + key + bytes([cnt])
    return f'@{key.decode()}', bytes([OPN['OP_READ_CACHE'], len(key)]) + key
def genseq(depth):
    parts = [gen(depth) for _ in range(random.randint(0,4))]
    src = ''; b = b''
    for s, e in parts:
        src += comment() + s; b += e
    return src + comment(), b
stats = collections.Counter(); examples = {}
for i in range(int(sys.argv[2]) if len(sys.argv)>2 else 5000):
    src, ref = genseq(0)
    try:
        out = compile_script(src)
    except BaseException as e:
        k = ('reject', type(e).__name__, str(e).split(' at ')[0][:50]); stats[k]+=1; examples.setdefault(k, src); continue
    if out == ref: stats['ok'] += 1
    else:
        stats['MISMATCH'] += 1
        if len(src) < len(examples.get('MISMATCH', 'x'*10000)): examples['MISMATCH'] = src; examples['MM'] = (out.hex(), ref.hex())
for k, v in stats.most_common(): print(v, k)
print('--- examples')
import json; json.dump({k if isinstance(k, str) else str(k): v for k, v in examples.items() if k in ('MISMATCH', 'MM')}, open('mm.json', 'w'))
