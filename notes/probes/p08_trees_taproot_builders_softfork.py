import os, hashlib
import tapescript as ts
from tapescript import *
from tapescript import functions as F, tools as T, parsing as P
from nacl.signing import SigningKey
c = compile_script
def tryrun(label, f):
    try:
        r = f()
        print(label, "->", r)
    except BaseException as e:
        print(label, "RAISED", type(e).__name__, str(e)[:100])
NOW = 1_700_000_000
F.time = lambda: NOW + 0.5
T.time = lambda: NOW + 0.5
# C04 trees
def mk(n):
    return [f'push x{i:02x} equal' for i in range(n)]
for n in [1,2,3,5,8]:
    lock, unlocks = make_merklized_script_prioritized(mk(n))
    res = [run_auth_scripts([c(f'push x{i:02x}'), unlocks[i], lock]) for i in range(n)]
    lock2, unlocks2 = make_merklized_script_balanced(mk(n))
    res2 = [run_auth_scripts([c(f'push x{i:02x}'), unlocks2[i], lock2]) for i in range(n)]
    print(n, all(res), all(res2), len(unlocks), len(unlocks2))
tree = make_script_tree_balanced(mk(5))
packed = tree.pack()
t2 = ScriptNode.unpack(packed)
print("pack roundtrip root", t2.root() == tree.root(), t2.pack() == packed)
tree = make_script_tree_prioritized(mk(5))
t2 = ScriptNode.unpack(tree.pack())
print("pack roundtrip prioritized", t2.root() == tree.root())
def leaves(node):
    out = []
    for ch in (node.left, node.right):
        out.extend([ch] if isinstance(ch, ScriptLeaf) else leaves(ch))
    return out
print([a.unlocking_script().bytes == b.unlocking_script().bytes for a, b in zip(leaves(tree), leaves(t2))])
# C05
seed = os.urandom(32); pk = bytes(SigningKey(seed).verify_key)
cs = Script.from_src('push x07 equal')
lock = make_taproot_lock(pk, cs); nlock = make_nonnative_taproot_lock(pk, cs)
sf = {'sigfield1': b'abc', 'sigfield2': b'def'}
for fl in ['00', '01', '02']:
    for allowed in ['00', '03']:
        l = make_taproot_lock(pk, cs, sigflags=allowed); nl = make_nonnative_taproot_lock(pk, cs, sigflags=allowed)
        w = make_taproot_witness_keyspend(seed, sf, cs, sigflags=fl)
        print("keyspend flag", fl, "allowed", allowed, run_auth_scripts([w, l], sf), run_auth_scripts([w, nl], sf))
ws = Script.from_src('push x07') + make_taproot_witness_scriptspend(pk, cs)
print("scriptspend", run_auth_scripts([ws, lock], sf), run_auth_scripts([ws, nlock], sf))
ws2 = Script.from_src('push x07') + make_taproot_witness_scriptspend(pk, Script.from_src('true'))
print("wrong scriptspend", run_auth_scripts([ws2, lock], sf), run_auth_scripts([ws2, nlock], sf))
# C13 graftroot/graftap
gl = make_graftroot_lock(pk)
print("graftroot key", run_auth_scripts([make_graftroot_witness_keyspend(seed, sf), gl], sf))
print("graftroot surrogate", run_auth_scripts([make_graftroot_witness_surrogate(seed, 'true'), gl], sf))
print("graftroot surrogate wrong key", run_auth_scripts([make_graftroot_witness_surrogate(os.urandom(32), 'true'), gl], sf))
gal = make_graftap_lock(pk)
print("graftap key", run_auth_scripts([make_graftap_witness_keyspend(seed, sf), gal], sf))
print("graftap script", run_auth_scripts([make_graftap_witness_scriptspend(seed, Script.from_src('true')), gal], sf))
# multisig
seeds = [os.urandom(32) for _ in range(3)]; pks = [bytes(SigningKey(s).verify_key) for s in seeds]
ml = make_multisig_lock(pks, 2)
w = make_single_sig_witness(seeds[0], sf) + make_single_sig_witness(seeds[2], sf)
print("multisig", run_auth_scripts([w, ml], sf))
w = make_single_sig_witness(seeds[0], sf) + make_single_sig_witness(seeds[0], sf, '01')
print("multisig same key flagvariant (allowed 00)", run_auth_scripts([w, ml], sf))
ml3 = make_multisig_lock(pks, 2, '01')
print("multisig same key flagvariant (allowed 01)", run_auth_scripts([w, ml3], sf))
tryrun("multisig quorum 0", lambda: run_auth_scripts([c('true pop0'), make_multisig_lock(pks, 0)], sf))
# C15 HTLC
rs, fs = os.urandom(32), os.urandom(32)
rpk, fpk = bytes(SigningKey(rs).verify_key), bytes(SigningKey(fs).verify_key)
pre = os.urandom(20)
for mk_lock, mk_wit in [(make_htlc_sha256_lock, make_htlc_witness), (make_htlc_shake256_lock, make_htlc_witness), (make_htlc2_sha256_lock, make_htlc2_witness), (make_htlc2_shake256_lock, make_htlc2_witness)]:
    l = mk_lock(rpk, fpk, preimage=pre, timeout=100)
    dl = NOW + 100
    out = []
    out.append(run_auth_scripts([mk_wit(rs, pre, sf), l], {**sf, 'timestamp': NOW}))
    out.append(run_auth_scripts([mk_wit(fs, pre, sf), l], {**sf, 'timestamp': NOW}))
    F.time = T.time = (lambda: dl + 5)
    for t in (dl-1, dl, dl+1):
        out.append(run_auth_scripts([mk_wit(fs, b'\x00', sf), l], {**sf, 'timestamp': t}))
    out.append(run_auth_scripts([mk_wit(rs, b'\x00', sf), l], {**sf, 'timestamp': dl+1}))
    F.time = T.time = (lambda: NOW + 0.5)
    print(mk_lock.__name__, out)
# PTLC
tw = clamp_scalar(os.urandom(32)); TP = derive_point_from_scalar(tw)
l = make_ptlc_lock(rpk, fpk, tweak_point=TP, timeout=100)
print("ptlc tweak", run_auth_scripts([make_ptlc_witness(rs, sf, tweak_scalar=tw), l], sf), run_auth_scripts([make_ptlc_witness(rs, sf), l], sf))
l = make_ptlc_lock(rpk, fpk, timeout=100)
print("ptlc", run_auth_scripts([make_ptlc_witness(rs, sf), l], sf), run_auth_scripts([make_ptlc_refund_witness(fs, sf), l], {**sf,'timestamp':NOW}))
# C20 lower-case name
def OPX(tape, stack, cache):
    n = bytes_to_int(tape.read(1)); assert n >= 0
    for _ in range(n): stack.get()
add_soft_fork(254, 'op_lower', OPX, ['lowalias', 'UPALIAS'])
tryrun("lower name compile", lambda: c('op_lower d1').hex())
tryrun("lower alias compile", lambda: c('lowalias d1').hex())
tryrun("upper alias compile", lambda: c('upalias d1').hex())
tryrun("decompile", lambda: decompile_script(b'\xfe\x01'))
add_soft_fork(253, 'OP_UPPER', OPX, ['UPB'])
tryrun("upper name compile", lambda: c('op_upper d1 upb x02 true if { upb d3 } def 0 { upb d1 }').hex())
tryrun("decompile", lambda: decompile_script(b'\xfd\x01'))
