import hashlib, os, time, sys
p = 2**255 - 19; L = 2**252 + 27742317777372353535851937790883648493
d = -121665 * pow(121666, p-2, p) % p
I = pow(2, (p-1)//4, p)
def sha512(b): return hashlib.sha512(b).digest()
def inv(x): return pow(x, p-2, p)
def recover_x(y, sign):
    if y >= p: return None
    x2 = (y*y-1) * inv(d*y*y+1) % p
    if x2 == 0: return None if sign else 0
    x = pow(x2, (p+3)//8, p)
    if (x*x - x2) % p != 0: x = x * I % p
    if (x*x - x2) % p != 0: return None
    if (x & 1) != sign: x = p - x
    return x
Gy = 4 * inv(5) % p; Gx = recover_x(Gy, 0)
G = (Gx, Gy, 1, Gx*Gy % p)
def add(P, Q):
    A = (P[1]-P[0])*(Q[1]-Q[0]) % p; B = (P[1]+P[0])*(Q[1]+Q[0]) % p
    C = 2*P[3]*Q[3]*d % p; D = 2*P[2]*Q[2] % p
    E, F, G_, H = B-A, D-C, D+C, B+A
    return (E*F % p, G_*H % p, F*G_ % p, E*H % p)
def mul(s, P):
    Q = (0,1,1,0)
    while s > 0:
        if s & 1: Q = add(Q, P)
        P = add(P, P); s >>= 1
    return Q
def enc(P):
    zi = inv(P[2]); x = P[0]*zi % p; y = P[1]*zi % p
    return int.to_bytes(y | ((x & 1) << 255), 32, 'little')
def dec(b):
    y = int.from_bytes(b, 'little'); sign = y >> 255; y &= (1<<255)-1
    x = recover_x(y, sign)
    if x is None: return None
    return (x, y, 1, x*y % p)
def secret_expand(seed):
    h = sha512(seed); a = int.from_bytes(h[:32], 'little'); a &= (1<<254) - 8; a |= (1<<254)
    return a, h[32:]
def pub(seed): a, _ = secret_expand(seed); return enc(mul(a, G))
def sign(seed, msg):
    a, prefix = secret_expand(seed); A = enc(mul(a, G))
    r = int.from_bytes(sha512(prefix+msg), 'little') % L
    R = enc(mul(r, G)); h = int.from_bytes(sha512(R+A+msg), 'little') % L
    return R + int.to_bytes((r + h*a) % L, 32, 'little')
def verify(A_, msg, sig):
    if len(A_) != 32 or len(sig) != 64: return False
    A = dec(A_); R = dec(sig[:32])
    if A is None or R is None: return False
    s = int.from_bytes(sig[32:], 'little')
    if s >= L: return False
    h = int.from_bytes(sha512(sig[:32]+A_+msg), 'little') % L
    return enc(mul(s, G)) == enc(add(R, mul(h, A)))
if __name__ == '__main__':
    sys.path.insert(0,'/repo')
    from nacl.signing import SigningKey, VerifyKey
    t0 = time.time(); n = 40
    for i in range(n):
        seed = os.urandom(32); m = os.urandom(i)
        sk = SigningKey(seed)
        assert pub(seed) == bytes(sk.verify_key)
        s = sign(seed, m); assert s == sk.sign(m).signature
        assert verify(pub(seed), m, s)
        bad = bytearray(s); bad[5] ^= 1
        assert not verify(pub(seed), m, bytes(bad))
    print("agree on", n, "; per (pub+sign+2 verify):", round((time.time()-t0)/n*1000,1), "ms")
