#!/venv/bin/python
import sys
sys.path.insert(0, '/verif/.deps'); sys.path.insert(0, '/repo')
import atheris
with atheris.instrument_imports(include=['tapescript']):
    import tapescript
from tapescript import decompile_script, compile_script
from tapescript.errors import ScriptExecutionError, SyntaxError as TSyntaxError
def one(data):
    try:
        lines = decompile_script(data)
    except (ScriptExecutionError, ValueError, IndexError, KeyError, RecursionError):
        return
atheris.Setup(sys.argv, one)
atheris.Fuzz()
