import sys, os, itertools
sys.path.insert(0, os.environ.get('VERIF_REPO','/repo'))
from tapescript import *
from tapescript import functions as F, tools as T
from nacl.signing import SigningKey
c = compile_script
NOW = 1_700_000_000
F.time = T.time = lambda: NOW + 0.5
own = [bytes([i])*32 for i in (1,2,3)]; opk = [bytes(SigningKey(s).verify_key) for s in own]
att = bytes([9])*32; apk = bytes(SigningKey(att).verify_key)
sf = {'sigfield1': b'pay', 'sigfield2': b'42'}
S = Script.from_src('push x07 equal')
locks = {
 'single': make_single_sig_lock(opk[0]), 'single2': make_single_sig_lock2(opk[0]),
 'multisig': make_multisig_lock(opk, 2), 'scripthash': make_scripthash_lock(make_single_sig_lock(opk[0])),
 'graftroot': make_graftroot_lock(opk[0]), 'graftap': make_graftap_lock(opk[0]),
 'taproot': make_taproot_lock(opk[0], make_single_sig_lock(opk[1])), 'ntaproot': make_nonnative_taproot_lock(opk[0], make_single_sig_lock(opk[1])),
 'htlc': make_htlc_sha256_lock(opk[0], opk[1], preimage=b'p'*20), 'htlc2': make_htlc2_sha256_lock(opk[0], opk[1], preimage=b'p'*20),
 'htlc_sk': make_htlc_shake256_lock(opk[0], opk[1], preimage=b'p'*20), 'htlc2_sk': make_htlc2_shake256_lock(opk[0], opk[1], preimage=b'p'*20),
 'ptlc': make_ptlc_lock(opk[0], opk[1]), 'delegate': make_delegate_key_lock(opk[0]), 'delegate_chain': make_delegate_key_chain_lock(opk[0]),
 'adapter1': make_adapter_locks_pub(opk[0], opk[1])[0], 'adapter_old': make_adapter_lock_pub(opk[0], opk[1]),
 'ts_after': make_timestamp_after_lock(NOW+1000), 'ts_before': make_timestamp_before_lock(NOW-1000), 'ts_between': make_timestamp_between_lock(NOW+1000, NOW+2000),
}
asig = make_single_sig_witness(att, sf).bytes
acert = make_delegate_key_cert(att, apk, NOW-10, NOW+10).pack()
atoms = {
 'true': c('true'), 'false': c('false'), 'junk32': c('push x' + '5a'*32), 'junk64': c('push x' + '5a'*64), 'apk': c('push x'+apk.hex()),
 'asig': asig, 'pre': c('push x' + (b'p'*20).hex()), 'acert': c('push x'+acert.hex()), 'ff': c('push xff'),
 'lock_single_att': c('push x' + make_single_sig_lock(apk).bytes.hex()), 'true_script': c('push x01'),
}
tails = {'': b'', 'return': c('return'), 'if_return': c('true if { return }'), 'loop_return': c('true loop { return } pop0')}
found = {}
n = 0
for k in range(0, 4):
    for combo in itertools.product(atoms, repeat=k):
        w = b''.join(atoms[a] for a in combo)
        for tn, tb in tails.items():
            for ln, lk in locks.items():
                n += 1
                if run_auth_scripts([w + tb, lk], {**sf, 'timestamp': NOW}):
                    key = (ln, tn != '')
                    if key not in found or len(combo) < len(found[key][0]): found[key] = (combo, tn)
print("tried", n)
for (ln, usedtail), (combo, tn) in sorted(found.items()): print("UNLOCKED", ln, "by attacker witness:", ' '.join(combo), tn)
