import tapescript as ts, time, signal, tracemalloc, sys, resource
from tapescript import *
from tapescript import functions as F, parsing as P
c = compile_script
def tryrun(label, f):
    try:
        r = f()
        print(label, "->", r)
    except BaseException as e:
        print(label, "RAISED", type(e).__name__, str(e)[:100])
# RANDOM allocation
for n in [1025, 2**20, 2**26]:
    tracemalloc.start()
    t0=time.time()
    tryrun(f"random {n}", lambda: run_script(c(f'push d{n} random')))
    cur, peak = tracemalloc.get_traced_memory(); tracemalloc.stop()
    print("   peak", peak, "t", round(time.time()-t0,3))
tryrun("random -1", lambda: run_script(c('push d-1 random')))
tryrun("random 2^70", lambda: run_script(c(f'push d{2**70} random')))
# nested IF recursion
def nested_if(depth):
    body = b''
    for _ in range(depth):
        body = b'\x01\x2b' + len(body).to_bytes(2,'big') + body
    return body
for d in [100, 200, 300, 330, 400, 1000]:
    tryrun(f"nested if {d} (len {len(nested_if(d))})", lambda: len(run_script(nested_if(d))[1]))
print("auth nested 400:", run_auth_scripts([nested_if(400)+b'\x01']))
# nested TRY recursion
def nested_try(depth):
    body = b''
    for _ in range(depth):
        body = b'\x3d' + len(body).to_bytes(2,'big') + body + b'\x00\x00'
    return body
for d in [200, 400]:
    tryrun(f"nested try {d}", lambda: len(run_script(nested_try(d))[1]))
# recursion with big callstack limit
rec = c('def 0 { call d0 } call d0')
for lim in [128, 400, 600, 2000]:
    tryrun(f"recursive call limit {lim}", lambda: run_script(rec, callstack_limit=lim))
rec2 = c('push ~ { dup eval } dup eval')
for lim in [128, 600]:
    tryrun(f"recursive eval limit {lim}", lambda: run_script(rec2, callstack_limit=lim))
# missing def
tryrun("call undefined", lambda: run_script(c('call d5')))
tryrun("empty stack pop", lambda: run_script(c('pop0')))
tryrun("div zero", lambda: run_script(c('push d0 push d1 div')))
