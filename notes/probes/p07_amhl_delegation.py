import os, hashlib
import tapescript as ts
from tapescript import *
from tapescript import functions as F, tools as T
from nacl.signing import SigningKey
c = compile_script
NOW = 1_700_000_000
F.time = lambda: NOW + 0.5
T.time = lambda: NOW + 0.5
# C18
for n in range(2, 7):
    seeds = [os.urandom(32) for _ in range(n)]
    pks = [bytes(SigningKey(s).verify_key) for s in seeds]
    amhl = setup_amhl(os.urandom(16), pks)
    sf = [{'sigfield1': os.urandom(8)} for _ in range(n)]
    wits = [make_adapter_witness(seeds[i], amhl[pks[i]][2], sf[i]) for i in range(n)]
    ok_adapters = all(run_auth_scripts([wits[i], amhl[pks[i]][0]], sf[i]) for i in range(n))
    # cascade
    k = amhl['key']
    sig = decrypt_adapter(wits[n-1], k)
    res = [run_auth_scripts([c(f'push x{sig.hex()}'), amhl[pks[n-1]][1]], sf[n-1])]
    for i in range(n-1, 0, -1):
        r = release_left_amhl_lock(wits[i], sig, amhl[pks[i]][3])
        sig = decrypt_adapter(wits[i-1], r)
        res.append(run_auth_scripts([c(f'push x{sig.hex()}'), amhl[pks[i-1]][1]], sf[i-1]))
    # wrong: use key on hop 0 directly
    sigw = decrypt_adapter(wits[0], k)
    wrong = run_auth_scripts([c(f'push x{sigw.hex()}'), amhl[pks[0]][1]], sf[0])
    print(n, ok_adapters, res, "wrong:", wrong, "witlen", len(wits[0].bytes))
# C14 boundaries
root = os.urandom(32); dele = os.urandom(32)
rpk = bytes(SigningKey(root).verify_key); dpk = bytes(SigningKey(dele).verify_key)
lock = make_delegate_key_lock(rpk)
sf = {'sigfield1': b'abc'}
for (b, e) in [(NOW-10, NOW+10)]:
    cert = make_delegate_key_cert(root, dpk, b, e)
    w = make_delegate_key_witness(dele, cert, sf)
    for t in [b-1, b, b+1, e-1, e, e+1, NOW+59, NOW+60]:
        print("single t-b=%d t-e=%d t-now=%d ->" % (t-b, t-e, t-NOW), run_auth_scripts([w, lock], {**sf, 'timestamp': t}))
cert = make_delegate_key_cert(root, dpk, NOW-10, NOW+1000)
w = make_delegate_key_witness(dele, cert, sf)
for t in [NOW+58, NOW+59, NOW+60, NOW+61]:
    print("slack t-now=%d ->" % (t-NOW), run_auth_scripts([w, lock], {**sf, 'timestamp': t}))
print("cert roundtrip", T.Certificate.unpack(cert.pack()) == cert)
# chain
chain_lock = make_delegate_key_chain_lock(rpk)
seeds = [os.urandom(32) for _ in range(4)]
pks = [bytes(SigningKey(s).verify_key) for s in seeds]
certs = []
signer = root
for i, pk in enumerate(pks):
    certs.append(make_delegate_key_cert(signer, pk, NOW-10, NOW+100, True))
    signer = seeds[i]
for L in range(1, 5):
    w = make_delegate_key_chain_witness(seeds[L-1], list(reversed(certs[:L])), sf)
    print("chain len", L, run_auth_scripts([w, chain_lock], {**sf, 'timestamp': NOW}))
# chain w/ non-delegable middle
certs2 = [make_delegate_key_cert(root, pks[0], NOW-10, NOW+100, False), make_delegate_key_cert(seeds[0], pks[1], NOW-10, NOW+100, True)]
w = make_delegate_key_chain_witness(seeds[1], list(reversed(certs2)), sf)
print("chain nondelegable first", run_auth_scripts([w, chain_lock], {**sf, 'timestamp': NOW}))
# final cert with can=False
certs3 = [make_delegate_key_cert(root, pks[0], NOW-10, NOW+100, True), make_delegate_key_cert(seeds[0], pks[1], NOW-10, NOW+100, False)]
w = make_delegate_key_chain_witness(seeds[1], list(reversed(certs3)), sf)
print("chain final nondelegable", run_auth_scripts([w, chain_lock], {**sf, 'timestamp': NOW}))
