import sys, os; sys.path.insert(0, os.environ.get('VERIF_REPO','/repo'))
import tapescript as ts
from tapescript import *
from tapescript.functions import opcodes_inverse
c = compile_script
# C01: returned flag attack
print("C01 a", run_auth_scripts([c('true return'), c('true if { } false verify')]))
print("C01 honest", run_auth_scripts([c('true'), c('true if { } false verify')]))
print("C01 b", run_auth_scripts([c('true return'), c('true if { pop0 } false verify true')]))
print("C01 try", run_auth_scripts([c('true return'), c('try { } false verify')]))
# LOOP return stale
t, s, ca = run_script(c('true loop { return } true if { } push x05'))
print("loop-return", s.list(), ca)
t, s, ca = run_script(c('true loop { return } push x05'))
print("loop-return2", s.list(), ca)
# END_IF swallow
print("endif", c('true if true end_if false').hex())
print("endif brace", c('true if { true } false').hex())
