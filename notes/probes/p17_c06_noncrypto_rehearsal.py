"""C06 rehearsal: reference semantics (written from docs.md / language_spec.md, tests as
tiebreaker) for the non-crypto instruction set vs run_script. Throw-away."""
import sys, os, random, struct, hashlib, math, collections
sys.path.insert(0, os.environ.get('VERIF_REPO', '/repo'))
from tapescript import run_script, int_to_bytes
from tapescript import functions as F

NOW = 1_700_000_000
F.time = lambda: NOW + 0.25
_ctr = [0]
def fake_token_bytes(n):
    if n < 0: raise ValueError('negative')
    _ctr[0] += 1
    return (hashlib.sha256(b'%d' % _ctr[0]).digest() * (n // 32 + 1))[:n]
F.token_bytes = fake_token_bytes

# opcode table from docs.md
import re
OPS = {}
for m in re.finditer(r'^## (OP_[A-Z0-9_]+) - (\d+) - x', open(os.path.join(os.environ.get('VERIF_REPO', '/repo'), 'docs.md')).read(), re.M):
    OPS[m.group(1)] = int(m.group(2))
NUM = {v: k for k, v in OPS.items()}

class Err(Exception): pass
class Stop(Exception): pass   # comparison must stop (ambiguous / unsupported)

def dec_int(b):
    if not b: raise Err('empty int')
    return int.from_bytes(b, 'big', signed=True)
def enc_int(n): return int_to_bytes(n)      # codec exactness is C10's job
def dec_f(b):
    if len(b) != 4: raise Err('float len')
    return struct.unpack('!f', b)[0]
def enc_f(x):
    if math.isnan(x): raise Err('nan')
    try: return struct.pack('!f', x)
    except OverflowError: raise Err('float overflow')
def truthy(b): return any(b)
TRUE, FALSE = b'\xff', b'\x00'

class Ref:
    def __init__(self, cache, limits=(1024, 1024, 128), flags=None, loopsem='break'):
        self.stack = []; self.cache = dict(cache); self.max_items, self.max_size, self.limit = limits
        self.calls = 0; self.steps = 0; self.loopsem = loopsem; self.ambiguous_defs = set()
        self.flags = {'ts_threshold': 60, 'epoch_threshold': 60, **{i: True for i in range(11)}, **(flags or {})}
        self.ncalls_total = 0
    def put(self, x):
        assert isinstance(x, bytes)
        if len(x) > self.max_size: raise Err('item size')
        if len(self.stack) >= self.max_items: raise Err('full')
        self.stack.append(x)
    def pop(self):
        if not self.stack: raise Err('empty')
        return self.stack.pop()
    def run(self, code, defs, depth):
        """returns True if a RETURN propagates out of this tape"""
        p = 0
        def rd(n):
            nonlocal p
            if p + n > len(code): raise Err('read past end')
            b = code[p:p+n]; p += n; return b
        def u8(): return rd(1)[0]
        st = self
        while p < len(code):
            op = u8(); self.steps += 1
            if self.steps > 30000: raise Stop('steps')
            name = NUM.get(op, 'NOP')
            if name == 'NOP':
                n = int.from_bytes(rd(1), 'big', signed=True)
                if n < 0: raise Err('nop negative')
                for _ in range(n): st.pop()
            elif name == 'OP_FALSE': st.put(FALSE)
            elif name == 'OP_TRUE': st.put(TRUE)
            elif name == 'OP_PUSH0': st.put(rd(1))
            elif name == 'OP_PUSH1': st.put(rd(u8()))
            elif name == 'OP_PUSH2': st.put(rd(int.from_bytes(rd(2), 'big')))
            elif name == 'OP_GET_MESSAGE':
                f = u8(); st.put(b''.join(self.cache[f'sigfield{i}'] for i in range(1, 9) if f'sigfield{i}' in self.cache and not (f >> (i-1)) & 1))
            elif name == 'OP_POP0': self.cache[b'P'] = [st.pop()]
            elif name == 'OP_POP1':
                n = u8(); self.cache[b'P'] = [st.pop() for _ in range(n)]
            elif name == 'OP_SIZE': st.put(enc_int(len(st.pop())))
            elif name == 'OP_WRITE_CACHE':
                k = rd(u8()); n = u8(); self.cache[k] = [st.pop() for _ in range(n)]
            elif name in ('OP_READ_CACHE', 'OP_READ_CACHE_STACK'):
                k = rd(u8()) if name == 'OP_READ_CACHE' else st.pop()
                if k not in self.cache: raise Err('no key')
                if k == b'E': raise Stop('read E')
                v = self.cache[k]
                for it in (v if isinstance(v, (list, tuple)) else [v]): st.put(it)
            elif name in ('OP_READ_CACHE_SIZE', 'OP_READ_CACHE_STACK_SIZE'):
                k = rd(u8()) if name == 'OP_READ_CACHE_SIZE' else st.pop()
                if k not in self.cache: st.put(enc_int(0))
                else:
                    v = self.cache[k]; st.put(enc_int(len(v) if isinstance(v, (list, tuple)) else 1))
            elif name == 'OP_ADD_INTS':
                n = u8(); st.put(enc_int(sum(dec_int(st.pop()) for _ in range(n))))
            elif name == 'OP_SUBTRACT_INTS':
                n = u8(); t = dec_int(st.pop())
                for _ in range(n - 1): t -= dec_int(st.pop())
                st.put(enc_int(t))
            elif name == 'OP_MULT_INTS':
                n = u8(); t = dec_int(st.pop())
                for _ in range(n - 1): t *= dec_int(st.pop())
                st.put(enc_int(t))
            elif name in ('OP_DIV_INT', 'OP_MOD_INT'):
                d = dec_int(rd(u8())); a = dec_int(st.pop())
                if d == 0: raise Err('div0')
                st.put(enc_int(a // d if name == 'OP_DIV_INT' else a % d))
            elif name in ('OP_DIV_INTS', 'OP_MOD_INTS'):
                a = dec_int(st.pop()); d = dec_int(st.pop())      # first (top) by second
                if d == 0: raise Err('div0')
                st.put(enc_int(a // d if name == 'OP_DIV_INTS' else a % d))
            elif name == 'OP_ADD_FLOATS':
                n = u8(); t = 0.0
                for _ in range(n): t += dec_f(st.pop())
                st.put(enc_f(t))
            elif name == 'OP_SUBTRACT_FLOATS':
                n = u8(); t = dec_f(st.pop())
                for _ in range(n - 1): t -= dec_f(st.pop())
                st.put(enc_f(t))
            elif name in ('OP_DIV_FLOAT', 'OP_MOD_FLOAT'):
                d = dec_f(rd(4)); a = dec_f(st.pop())
                if d == 0: raise Err('div0')
                st.put(enc_f(a / d if name == 'OP_DIV_FLOAT' else a % d))
            elif name == 'OP_DIV_FLOATS':
                a = dec_f(st.pop()); d = dec_f(st.pop())          # tests pin top / second
                if d == 0: raise Err('div0')
                st.put(enc_f(a / d))
            elif name == 'OP_MOD_FLOATS':
                d = dec_f(st.pop()); a = dec_f(st.pop())          # second % first(top)
                if d == 0: raise Err('div0')
                st.put(enc_f(a % d))
            elif name == 'OP_COPY':
                n = u8(); x = st.pop()
                for _ in range(n + 1): st.put(x)
            elif name == 'OP_DUP':
                x = st.pop(); st.put(x); st.put(x)
            elif name == 'OP_SHA256': st.put(hashlib.sha256(st.pop()).digest())
            elif name == 'OP_SHAKE256':
                n = u8(); st.put(hashlib.shake_256(st.pop()).digest(n))
            elif name == 'OP_VERIFY':
                if not truthy(st.pop()): raise Err('verify')
            elif name in ('OP_EQUAL', 'OP_EQUAL_VERIFY'):
                a, b = st.pop(), st.pop(); r = a == b
                if name == 'OP_EQUAL': st.put(TRUE if r else FALSE)
                elif not r: raise Err('verify')
            elif name in ('OP_CHECK_TIMESTAMP', 'OP_CHECK_TIMESTAMP_VERIFY'):
                c = st.pop()
                if not c: raise Err('constraint')
                c = int.from_bytes(c, 'big'); t = self.cache.get('timestamp')
                if type(t) is not int: raise Err('ts')
                thr = self.flags['ts_threshold']
                r = t >= c and (thr <= 0 or t - NOW < thr)
                if name.endswith('VERIFY'):
                    if not r: raise Err('verify')
                else: st.put(TRUE if r else FALSE)
            elif name in ('OP_CHECK_EPOCH', 'OP_CHECK_EPOCH_VERIFY'):
                c = st.pop()
                if not c: raise Err('constraint')
                r = int.from_bytes(c, 'big') - NOW < self.flags['epoch_threshold']
                if name.endswith('VERIFY'):
                    if not r: raise Err('verify')
                else: st.put(TRUE if r else FALSE)
            elif name == 'OP_DEF':
                h = rd(1); body = rd(int.from_bytes(rd(2), 'big')); defs[h] = body; self.ambiguous_defs.discard(h)
            elif name == 'OP_CALL':
                if depth >= self.limit: raise Err('callstack')
                h = rd(1)
                if h in self.ambiguous_defs: raise Stop('ambiguous def')
                if h not in defs: raise Err('nodef')
                self.ncalls_total += 1
                if self.ncalls_total >= self.limit: raise Stop('budget ambiguous')
                self.run(defs[h], defs, depth + 1)
            elif name == 'OP_EVAL':
                if depth >= self.limit: raise Err('callstack')
                s = st.pop()
                if not s: raise Err('empty eval')
                self.ncalls_total += 1
                if self.ncalls_total >= self.limit: raise Stop('budget ambiguous')
                self.run(s, dict(defs), depth + 1)
            elif name == 'OP_IF':
                body = rd(int.from_bytes(rd(2), 'big'))
                if truthy(st.pop()):
                    if self.sub(body, defs, depth): return True
            elif name == 'OP_IF_ELSE':
                a = rd(int.from_bytes(rd(2), 'big')); b = rd(int.from_bytes(rd(2), 'big'))
                if self.sub(a if truthy(st.pop()) else b, defs, depth): return True
            elif name == 'OP_TRY_EXCEPT':
                a = rd(int.from_bytes(rd(2), 'big')); b = rd(int.from_bytes(rd(2), 'big'))
                try: r = self.sub(a, defs, depth)
                except Err:
                    self.cache[b'E'] = 'OPAQUE'
                    r = self.sub(b, defs, depth)
                if r: return True
            elif name == 'OP_LOOP':
                body = rd(int.from_bytes(rd(2), 'big'))
                if not st.stack: raise Err('peek')
                cnt = 0
                while truthy(st.stack[-1]):
                    if cnt >= self.limit: raise Err('loop limit')
                    if self.run(body, defs, depth):
                        raise Stop('return in loop')      # documented ambiguity + D2
                    cnt += 1
                    if not st.stack: raise Err('peek')
            elif name == 'OP_NOT': st.put(bytes(x ^ 0xff for x in st.pop()))
            elif name == 'OP_RANDOM':
                n = dec_int(st.pop())
                if n < 0: raise Err('neg')
                if n > self.max_size: raise Err('too large')
                st.put(fake_token_bytes(n))
            elif name == 'OP_RETURN': return True
            elif name in ('OP_SET_FLAG', 'OP_UNSET_FLAG'): raise Stop('flag ops (D9)')
            elif name == 'OP_DEPTH': st.put(enc_int(len(st.stack)))
            elif name == 'OP_SWAP':
                i, j = u8(), u8()
                if i != j:
                    if max(i, j) >= len(st.stack): raise Err('swap')
                    s = st.stack; s[-1-i], s[-1-j] = s[-1-j], s[-1-i]
            elif name == 'OP_SWAP2':
                a, b = st.pop(), st.pop(); st.put(a); st.put(b)
            elif name == 'OP_REVERSE':
                n = u8()
                if n > len(st.stack): raise Err('reverse')
                if n: st.stack[-n:] = st.stack[-n:][::-1]
            elif name == 'OP_CONCAT':
                b, a = st.pop(), st.pop(); st.put(a + b)
            elif name in ('OP_SPLIT', 'OP_SPLIT_STR'):
                i = dec_int(st.pop()); x = st.pop()
                if name == 'OP_SPLIT_STR':
                    try: x = x.decode('utf-8')
                    except UnicodeDecodeError: raise Err('utf8')
                if i < 0 or i > len(x): raise Err('index')
                if i == len(x): raise Stop('split at len (ambiguous)')
                a, b = x[:i], x[i:]
                if name == 'OP_SPLIT_STR': a, b = a.encode(), b.encode()
                st.put(a); st.put(b)
            elif name == 'OP_CONCAT_STR':
                try: b = st.pop().decode('utf-8'); a = st.pop().decode('utf-8')
                except UnicodeDecodeError: raise Err('utf8')
                st.put((a + b).encode())
            elif name in ('OP_LESS', 'OP_LESS_OR_EQUAL'):
                a = dec_int(st.pop()); b = dec_int(st.pop())
                st.put(TRUE if (a < b if name == 'OP_LESS' else a <= b) else FALSE)
            elif name in ('OP_FLOAT_LESS', 'OP_FLOAT_LESS_OR_EQUAL'):
                a = dec_f(st.pop()); b = dec_f(st.pop())
                st.put(TRUE if (a < b if name == 'OP_FLOAT_LESS' else a <= b) else FALSE)
            elif name == 'OP_GET_VALUE':
                try: k = rd(u8()).decode('utf-8')
                except UnicodeDecodeError: raise Err('utf8')
                if k not in self.cache: raise Err('no key')
                v = self.cache[k]
                for it in (v if isinstance(v, (list, tuple)) else [v]):
                    if type(it) in (bytes, bytearray): st.put(bytes(it))
                    elif type(it) is str: st.put(it.encode())
                    elif type(it) is int: st.put(enc_int(it))
                    elif type(it) is float: st.put(enc_f(it) if not math.isnan(it) else struct.pack('!f', it))
            elif name == 'OP_INT_TO_FLOAT':
                n = dec_int(st.pop())
                try: st.put(enc_f(float(n)))
                except OverflowError: raise Err('overflow')
            elif name == 'OP_FLOAT_TO_INT':
                x = dec_f(st.pop())
                if math.isnan(x) or math.isinf(x): raise Err('nonfinite')
                st.put(enc_int(int(x)))
            elif name in ('OP_XOR', 'OP_OR', 'OP_AND'):
                a, b = st.pop(), st.pop(); n = max(len(a), len(b))
                a, b = a.ljust(n, b'\0'), b.ljust(n, b'\0')
                f = {'OP_XOR': lambda x, y: x ^ y, 'OP_OR': lambda x, y: x | y, 'OP_AND': lambda x, y: x & y}[name]
                st.put(bytes(f(x, y) for x, y in zip(a, b)))
            elif name in ('OP_CHECK_TEMPLATE', 'OP_CHECK_TEMPLATE_VERIFY'):
                f = u8(); ok = True
                for i in range(1, 9):
                    if (f >> (i-1)) & 1:
                        tpl = st.pop()
                        if f'sigfield{i}' not in self.cache: raise Err('missing field')
                        ok = ok and tpl == self.cache[f'sigfield{i}']
                if name.endswith('VERIFY'):
                    if not ok: raise Err('verify')
                else: st.put(TRUE if ok else FALSE)
            else:
                raise Stop('unsupported ' + name)
            opstat[name] += 1
        return False
    def sub(self, body, defs, depth):
        d2 = dict(defs)
        r = self.run(body, d2, depth)
        for h in d2:
            if d2[h] is not defs.get(h): self.ambiguous_defs.add(h)
        return r

# ---------------------------------------------------------------- generator
rnd = random.Random(int(sys.argv[1]) if len(sys.argv) > 1 else 1)
SUPPORTED = [n for n in OPS if n not in ('OP_CHECK_SIG', 'OP_CHECK_SIG_VERIFY', 'OP_CHECK_MULTISIG', 'OP_CHECK_MULTISIG_VERIFY', 'OP_SIGN', 'OP_SIGN_STACK', 'OP_CHECK_SIG_STACK', 'OP_DERIVE_SCALAR', 'OP_CLAMP_SCALAR', 'OP_ADD_SCALARS', 'OP_SUBTRACT_SCALARS', 'OP_DERIVE_POINT', 'OP_SUBTRACT_POINTS', 'OP_ADD_POINTS', 'OP_MAKE_ADAPTER_SIG_PUBLIC', 'OP_MAKE_ADAPTER_SIG_PRIVATE', 'OP_CHECK_ADAPTER_SIG', 'OP_DECRYPT_ADAPTER_SIG', 'OP_INVOKE', 'OP_CHECK_TRANSFER', 'OP_MERKLEVAL', 'OP_TAPROOT', 'OP_SET_FLAG', 'OP_UNSET_FLAG')]
def rint():
    r = rnd.random()
    if r < 0.4: return rnd.randint(-3, 6)
    if r < 0.6: return rnd.choice([127, 128, 255, 256, -128, -129, 32767, 32768, -32768, 2**31-1, 2**31, 2**63-1, 2**63, -2**63, 2**64])
    return rnd.randint(-2**40, 2**40)
def rfloat():
    r = rnd.random()
    if r < 0.3: return struct.pack('!f', rnd.choice([0.0, -0.0, 1.0, -1.0, 0.5, 2.0, 3.5, 1e10, -1e-10, 3.4028234663852886e+38]))
    if r < 0.4: return rnd.choice([b'\x7f\x80\x00\x00', b'\xff\x80\x00\x00', b'\x7f\xc0\x00\x00', b'\x00\x00\x00\x01'])
    return struct.pack('!f', rnd.uniform(-1000, 1000))
def rbytes():
    r = rnd.random()
    if r < 0.2: return b''
    if r < 0.5: return bytes(rnd.randrange(256) for _ in range(rnd.randint(1, 4)))
    if r < 0.7: return rnd.choice([b'hello', 'héllo'.encode(), b'\x00', b'\x00\x00', b'\xff', b'abc def'])
    return bytes(rnd.randrange(256) for _ in range(rnd.choice([31, 32, 33, 64, 255, 256, 300])))
def push(v):
    if len(v) == 1: return bytes([OPS['OP_PUSH0']]) + v
    if len(v) < 256: return bytes([OPS['OP_PUSH1'], len(v)]) + v
    return bytes([OPS['OP_PUSH2']]) + len(v).to_bytes(2, 'big') + v
KEYS = [b'a', b'b', b'P', b'sigfield1', b'', b'k\x00']
def count(): return rnd.choice([0, 1, 1, 2, 2, 3, 255])
def block(depth): return seq(depth + 1)
def blen(b): return len(b).to_bytes(2, 'big')
def instr(depth):
    r = rnd.random()
    if r < 0.30:   # typed op with typed args
        k = rnd.choice(['int', 'float', 'bytes', 'cmp', 'cache', 'str', 'stack', 'time'])
        if k == 'int':
            op = rnd.choice(['OP_ADD_INTS', 'OP_SUBTRACT_INTS', 'OP_MULT_INTS', 'OP_DIV_INTS', 'OP_MOD_INTS', 'OP_DIV_INT', 'OP_MOD_INT', 'OP_LESS', 'OP_LESS_OR_EQUAL', 'OP_INT_TO_FLOAT', 'OP_RANDOM'])
            n = rnd.choice([0, 1, 2, 2, 3])
            pre = b''.join(push(int_to_bytes(rint())) for _ in range(max(n, 2)))
            if op in ('OP_ADD_INTS', 'OP_SUBTRACT_INTS', 'OP_MULT_INTS'): return pre + bytes([OPS[op], n])
            if op in ('OP_DIV_INT', 'OP_MOD_INT'):
                d = rnd.choice([b'', int_to_bytes(rint()), b'\x00\x05']); return pre + bytes([OPS[op], len(d)]) + d
            if op == 'OP_RANDOM': return push(int_to_bytes(rnd.choice([0, 1, 5, 32, 1024, 1025, -1]))) + bytes([OPS[op]])
            return pre + bytes([OPS[op]])
        if k == 'float':
            op = rnd.choice(['OP_ADD_FLOATS', 'OP_SUBTRACT_FLOATS', 'OP_DIV_FLOATS', 'OP_MOD_FLOATS', 'OP_DIV_FLOAT', 'OP_MOD_FLOAT', 'OP_FLOAT_LESS', 'OP_FLOAT_LESS_OR_EQUAL', 'OP_FLOAT_TO_INT'])
            n = rnd.choice([0, 1, 2, 2, 3]); pre = b''.join(push(rfloat()) for _ in range(max(n, 2)))
            if op in ('OP_ADD_FLOATS', 'OP_SUBTRACT_FLOATS'): return pre + bytes([OPS[op], n])
            if op in ('OP_DIV_FLOAT', 'OP_MOD_FLOAT'): return pre + bytes([OPS[op]]) + rfloat()
            return pre + bytes([OPS[op]])
        if k == 'bytes':
            op = rnd.choice(['OP_XOR', 'OP_OR', 'OP_AND', 'OP_CONCAT', 'OP_EQUAL', 'OP_EQUAL_VERIFY', 'OP_NOT', 'OP_SHA256', 'OP_SHAKE256', 'OP_SIZE', 'OP_SPLIT', 'OP_VERIFY', 'OP_COPY', 'OP_DUP'])
            a, b = rbytes(), rbytes()
            if rnd.random() < 0.3: b = a
            if op == 'OP_SPLIT': return push(a) + push(int_to_bytes(rnd.choice([0, 1, len(a) - 1, len(a), len(a) + 1, -1]))) + bytes([OPS[op]])
            if op in ('OP_SHAKE256', 'OP_COPY'): return push(a) + bytes([OPS[op], rnd.choice([0, 1, 2, 20, 255])])
            return push(a) + push(b) + bytes([OPS[op]])
        if k == 'cmp': return push(int_to_bytes(rint())) + push(int_to_bytes(rint())) + bytes([OPS[rnd.choice(['OP_LESS', 'OP_LESS_OR_EQUAL', 'OP_EQUAL'])]])
        if k == 'cache' and rnd.random() < 0.35:
            key = rnd.choice(KEYS); n = rnd.choice([0, 1, 2, 3])
            pre = b''.join(push(rbytes()) for _ in range(n))
            rd_ = rnd.choice([bytes([OPS['OP_READ_CACHE'], len(key)]) + key, push(key) + bytes([OPS['OP_READ_CACHE_STACK']]) if key else b'', bytes([OPS['OP_READ_CACHE_SIZE'], len(key)]) + key, (push(key) + bytes([OPS['OP_READ_CACHE_STACK_SIZE']])) if key else b''])
            return pre + bytes([OPS['OP_WRITE_CACHE'], len(key)]) + key + bytes([n]) + rd_
        if k == 'cache':
            key = rnd.choice(KEYS); op = rnd.choice(['OP_WRITE_CACHE', 'OP_READ_CACHE', 'OP_READ_CACHE_SIZE', 'OP_READ_CACHE_STACK', 'OP_READ_CACHE_STACK_SIZE', 'OP_POP0', 'OP_POP1', 'OP_GET_VALUE', 'OP_GET_MESSAGE', 'OP_CHECK_TEMPLATE'])
            if op == 'OP_WRITE_CACHE': return bytes([OPS[op], len(key)]) + key + bytes([rnd.choice([0, 1, 2])])
            if op in ('OP_READ_CACHE', 'OP_READ_CACHE_SIZE'): return bytes([OPS[op], len(key)]) + key
            if op in ('OP_READ_CACHE_STACK', 'OP_READ_CACHE_STACK_SIZE'): return push(key) + bytes([OPS[op]]) if key else bytes([OPS[op]])
            if op == 'OP_POP1': return bytes([OPS[op], rnd.choice([0, 1, 2])])
            if op == 'OP_GET_VALUE':
                k2 = rnd.choice([b'timestamp', b'sigfield1', b'custom', b'nokey', b'flt', b'str', b'\xff']); return bytes([OPS[op], len(k2)]) + k2
            if op == 'OP_GET_MESSAGE': return bytes([OPS[op], rnd.choice([0, 1, 2, 3, 255, 0x80])])
            if op == 'OP_CHECK_TEMPLATE': return push(rnd.choice([b'abc', b'zzz'])) + bytes([OPS[op], rnd.choice([0, 1, 2, 0x80])])
            return bytes([OPS[op]])
        if k == 'str':
            a = rnd.choice([b'hello', 'héllo wörld'.encode(), b'\xff\xfe', b'', b'a b'])
            if rnd.random() < 0.5: return push(a) + push(rnd.choice([b'x', b'', b'\xc3'])) + bytes([OPS['OP_CONCAT_STR']])
            return push(a) + push(int_to_bytes(rnd.choice([0, 1, 2, 5, 6, 11, 12, 13]))) + bytes([OPS['OP_SPLIT_STR']])
        if k == 'stack':
            op = rnd.choice(['OP_SWAP', 'OP_SWAP2', 'OP_REVERSE', 'OP_DEPTH', 'NOP'])
            if op == 'OP_SWAP': return bytes([OPS[op], rnd.choice([0, 1, 2, 3, 255]), rnd.choice([0, 1, 2, 3, 255])])
            if op == 'OP_REVERSE': return bytes([OPS[op], rnd.choice([0, 1, 2, 3, 255])])
            if op == 'NOP': return bytes([rnd.randint(92, 255), rnd.choice([0, 1, 2, 127, 128, 255])])
            return bytes([OPS[op]])
        if k == 'time':
            c = rnd.choice([NOW - 1, NOW, NOW + 1, NOW + 59, NOW + 60, NOW + 61, 0])
            enc = c.to_bytes(rnd.choice([5, 8]), 'big') if rnd.random() < 0.5 else int_to_bytes(c)
            return push(enc) + bytes([OPS[rnd.choice(['OP_CHECK_TIMESTAMP', 'OP_CHECK_TIMESTAMP_VERIFY', 'OP_CHECK_EPOCH', 'OP_CHECK_EPOCH_VERIFY'])]])
    if r < 0.45 and depth < 3:
        k = rnd.choice(['if', 'ifelse', 'try', 'loop', 'def', 'eval'])
        a, b = block(depth), block(depth)
        cond = bytes([rnd.choice([0, 1, 1])])
        if k == 'if': return cond + bytes([OPS['OP_IF']]) + blen(a) + a
        if k == 'ifelse': return cond + bytes([OPS['OP_IF_ELSE']]) + blen(a) + a + blen(b) + b
        if k == 'try': return bytes([OPS['OP_TRY_EXCEPT']]) + blen(a) + a + blen(b) + b
        if k == 'loop':
            body = rnd.choice([bytes([OPS['OP_POP0']]) + a + bytes([OPS['OP_FALSE']]), a])
            return cond + bytes([OPS['OP_LOOP']]) + blen(body) + body
        if k == 'def': return bytes([OPS['OP_DEF'], rnd.randint(0, 2)]) + blen(a) + a
        if k == 'eval': return (push(a) if 0 < len(a) < 1024 else push(b'\x01')) + bytes([OPS['OP_EVAL']])
    if r < 0.52: return bytes([OPS['OP_CALL'], rnd.randint(0, 2)])
    if r < 0.56: return bytes([OPS['OP_RETURN']])
    if r < 0.9: return push(rnd.choice([rbytes(), int_to_bytes(rint()), rfloat()]))
    op = rnd.choice(SUPPORTED); return bytes([OPS[op]]) + bytes(rnd.randrange(256) for _ in range(rnd.choice([0, 0, 1, 2, 3])))
def loop_tail(): return b''
def seq(depth):
    return b''.join(instr(depth) for _ in range(rnd.randint(0, 5 if depth else 8)))
# fix loop: body length header must match body; rebuild loop generator simply
def instr_loop(depth):
    a = block(depth)
    body = a + bytes([OPS['OP_DEPTH'], OPS['OP_POP0']])   # harmless tail
    # countdown loop: [n] loop { body ; push 1 swap2 subtract_ints 2 } is complex; use flag item: push n; loop { pop0 body push (n-1 computed statically impossible) }
    return None

stats = collections.Counter(); ex = {}
N = int(sys.argv[2]) if len(sys.argv) > 2 else 20000
CACHE = {'sigfield1': b'abc', 'sigfield3': b'', 'sigfield8': b'zz', 'timestamp': NOW + 30, 'custom': [b'q', 5, 'str', 1.5], 'flt': 2.5, 'str': 'hé'}
opstat = collections.Counter()
for i in range(N):
    code = seq(0)
    _ctr[0] = 0
    ref = Ref(CACHE)
    try:
        ref.run(code, {}, 0); exp = ('ok', ref.stack, {k: v for k, v in ref.cache.items() if isinstance(k, bytes)})
    except Err as e: exp = ('err', str(e))
    except Stop as e: stats['stop:' + str(e).split(' ')[0]] += 1; continue
    except RecursionError: stats['stop:rec'] += 1; continue
    _ctr[0] = 0
    try:
        t, s, c = run_script(code, CACHE); real = ('ok', s.list(), {k: v for k, v in c.items() if isinstance(k, bytes)})
    except RecursionError: stats['rec'] += 1; continue
    except BaseException as e: real = ('err', type(e).__name__ + ':' + str(e)[:50])
    if exp[0] == 'err' and real[0] == 'err': stats['agree-err'] += 1; continue
    if exp[0] == 'ok' and real[0] == 'ok':
        ce = dict(exp[2]); cr = dict(real[2])
        if b'E' in ce and b'E' in cr: ce.pop(b'E'); cr.pop(b'E')
        if exp[1] == real[1] and ce == cr: stats['agree-ok'] += 1; continue
    k = 'DISAGREE ' + exp[0] + '/' + real[0] + ((' ' + (exp[1] if exp[0] == 'err' else real[1])) if exp[0] != real[0] else '')
    stats[k] += 1
    if k not in ex or len(code) < len(ex[k][0]): ex[k] = (code, exp, real)
for k, v in sorted(stats.items(), key=lambda kv: -kv[1]): print(v, k)
print('ops executed ok in reference:', len(opstat), 'least covered:', sorted(opstat.items(), key=lambda kv: kv[1])[:12])
missing = [n for n in SUPPORTED if n not in opstat]; print('never ok:', missing)
print('--- smallest example per disagreement class')
for k, (code, exp, real) in ex.items():
    print(k); print('   code', code.hex()[:200]); print('   exp ', str(exp)[:300]); print('   real', str(real)[:300])
