"""C09 rehearsal: configuration probes inside every nesting context of depth <= 2 (3 with arg)."""
import sys, os, itertools, hashlib, collections
sys.path.insert(0, os.environ.get('VERIF_REPO', '/repo'))
from tapescript import run_script, int_to_bytes, ScriptExecutionError
from tapescript import functions as F
from nacl.signing import SigningKey
NOW = 1_700_000_000
F.time = lambda: NOW + 0.5
sha = lambda b: hashlib.sha256(b).digest()
def push(v):
    if len(v) == 1: return b'\x02' + v
    if len(v) < 256: return bytes([3, len(v)]) + v
    return b'\x04' + len(v).to_bytes(2, 'big') + v
L2 = lambda b: len(b).to_bytes(2, 'big')
SEED = bytes(range(32)); PK = bytes(SigningKey(SEED).verify_key)
FILLER = b'\x00'
def xor(a, b): return bytes(x ^ y for x, y in zip(a, b))
def wrap(ctx, body):
    if ctx == 'IF': return b'\x01\x2b' + L2(body) + body
    if ctx == 'IFELSE_T': return b'\x01\x2c' + L2(body) + body + b'\x00\x00'
    if ctx == 'IFELSE_E': return b'\x00\x2c\x00\x00' + L2(body) + body
    if ctx == 'TRY': return b'\x3d' + L2(body) + body + b'\x00\x00'
    if ctx == 'EXCEPT': return b'\x3d\x00\x02\x00\x20' + L2(body) + body
    if ctx == 'LOOP':
        b = b'\x06' + body + b'\x00'
        return b'\x01\x45' + L2(b) + b + b'\x06'
    if ctx == 'DEFCALL': return b'\x29\x07' + L2(body) + body + b'\x2a\x07'
    if ctx == 'EVAL': return push(body) + b'\x2d'
    if ctx == 'MERKLEVAL':
        root = xor(sha(sha(body)), sha(sha(FILLER)))
        return push(sha(FILLER)) + push(body) + b'\x3c' + root
    if ctx == 'TAPROOT':
        t = F.clamp_scalar(sha(PK + sha(body)))
        root = F.aggregate_points((PK, F.derive_point_from_scalar(t)))
        return push(body) + push(PK) + push(root) + b'\x5b\x00'
    raise KeyError(ctx)
CTX = ['IF', 'IFELSE_T', 'IFELSE_E', 'TRY', 'EXCEPT', 'LOOP', 'DEFCALL', 'EVAL', 'MERKLEVAL', 'TAPROOT']
class Contract:
    def __init__(self): self.calls = 0
    def abi(self, args): self.calls += 1; return [b'\x2a']
CID = b'\xc1' * 20
def W(key): return bytes([9, len(key)]) + key + b'\x01'     # WRITE_CACHE key 1
PROBES = {
    # name: (code, run kwargs builder, observe(cache, counters) -> value)
    'plugin_msg':   (b'\x05\x00\x06', 'plug'),
    'plugin_cs':    (push(b'\x11' * 64) + push(PK) + b'\x23\x00\x06', 'plug'),
    'plugin_sign':  (push(SEED) + b'\x48\x00\x06', 'plug'),
    'plugin_ct':    (push(b'abc') + b'\x59\x01\x06', 'plug'),
    'flag1':        (push(SEED) + b'\x4b\x06', 'flag1'),
    'flag9':        (push(SEED) + b'\x48\x00\x06', 'flag9'),
    'flag10':       (push(b'abc') + b'\x59\x01\x06', 'flag10'),
    'contract':     (push(b'\x00') + push(CID) + b'\x55' + W(b'ir'), 'contract'),
    'ts_thr':       (push(int_to_bytes(NOW)) + b'\x25' + W(b'r'), 'ts'),
    'epoch_thr':    (push(int_to_bytes(NOW + 30)) + b'\x27' + W(b'r'), 'epoch'),
    'ctpl_plugin':  (push(b'nomatch') + b'\x59\x01' + W(b'r'), 'ctpl'),
    'no_eval':      (push(b'\x01') + b'\x2d\x06', 'noeval'),
}
def run_probe(pname, ctxword):
    code, kind = PROBES[pname]
    for c in reversed(ctxword): code = wrap(c, code)
    cnt = collections.Counter()
    def sigplug(tape, stack, cache): cnt['sig'] += 1
    def ctplug(tape, stack, cache): cnt['ct'] += 1; return True
    con = Contract()
    kw = dict(cache_vals={'sigfield1': b'abc', 'timestamp': NOW + 30})
    if kind == 'plug': kw['plugins'] = {'signature_extensions': [sigplug]}
    if kind == 'flag1': kw['additional_flags'] = {1: False}
    if kind == 'flag9': kw['additional_flags'] = {9: False}
    if kind == 'flag10': kw['additional_flags'] = {10: False}; kw['plugins'] = {'signature_extensions': [sigplug]}
    if kind == 'contract': kw['contracts'] = {CID: con}
    if kind == 'ts': kw['additional_flags'] = {'ts_threshold': 5}
    if kind == 'epoch': kw['additional_flags'] = {'epoch_threshold': 5}
    if kind == 'ctpl': kw['plugins'] = {'check_template': [ctplug]}
    if kind == 'noeval': kw['additional_flags'] = {'disallow_OP_EVAL': True}
    try:
        t, s, c = run_script(code, **kw); err = None
    except BaseException as e:
        c = {}; err = type(e).__name__ + ':' + str(e)[:40]
    if kind == 'plug': return ('sigcalls', cnt['sig'], err)
    if kind == 'flag1': return ('x written', b'x' in c, err)
    if kind == 'flag9': return ('s written', b's' in c, err)
    if kind == 'flag10': return ('sigcalls', cnt['sig'], err)
    if kind == 'contract': return ('calls', con.calls, c.get(b'ir'), err)
    if kind in ('ts', 'epoch', 'ctpl'): return ('r', c.get(b'r'), cnt['ct'], err)
    if kind == 'noeval':
        e = c.get(b'E', [b''])[0] if c else b''
        return ('disallowed', (err is not None and 'OP_EVAL disallowed' in err) or b'OP_EVAL disallowed' in e)
maxd = int(sys.argv[1]) if len(sys.argv) > 1 else 2
fails = collections.Counter(); ex = {}; n = 0
for pname in PROBES:
    base = run_probe(pname, ())
    for d in range(1, maxd + 1):
        for word in itertools.product(CTX, repeat=d):
            if PROBES[pname][1] == 'noeval' and any(c in ('EVAL', 'MERKLEVAL', 'TAPROOT') for c in word):
                pass
            n += 1
            got = run_probe(pname, word)
            if got != base:
                culprit = tuple(sorted(set(word)))
                fails[(pname,)] += 1
                key = (pname, word[-1])
                if key not in ex or len(word) < len(ex[key][0]): ex[key] = (word, base, got)
print('runs', n, 'baseline-vs-context mismatches per probe:', dict(fails))
byctx = collections.defaultdict(set)
for (pname, last), (word, base, got) in ex.items(): byctx[pname].add(word)
for pname, words in byctx.items():
    print(pname, 'top-level =', run_probe(pname, ()))
    for w in sorted(words, key=len)[:12]: print('     ', w, '->', run_probe(pname, w))
