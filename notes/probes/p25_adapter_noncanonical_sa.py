import sys, os
sys.path.insert(0, os.environ.get('VERIF_REPO', '/repo')); sys.path.insert(0, os.path.dirname(os.path.abspath(__file__)))
from tapescript import *
from tapescript import functions as F
import ed
def push(v): return bytes([3, len(v)]) + v if len(v) > 1 else b'\x02' + v
def P(*items): return b''.join(push(i) for i in items)
op = lambda n: bytes([F.opcodes_inverse[n][0]])
def top(code, cache={}):
    try: t, s, c = run_script(code, cache); return s.list()
    except BaseException as e: return 'ERR:' + type(e).__name__ + ':' + str(e)[:50]
seed = bytes(range(32)); X = ed.pub(seed); m = b'hello'
tb = clamp_scalar(bytes(range(1, 33))); T = derive_point_from_scalar(tb)
R, sa = top(P(seed, m, T) + op('OP_MAKE_ADAPTER_SIG_PUBLIC'))
for label, sa2 in [('honest', sa), ('bit255', sa[:31] + bytes([sa[31] ^ 0x80])), ('bit254', sa[:31] + bytes([sa[31] ^ 0x40])), ('bit253', sa[:31] + bytes([sa[31] ^ 0x20])), ('plus L', ((int.from_bytes(sa, 'little') + ed.L)).to_bytes(32, 'little'))]:
    chk = top(P(sa2, R, m, T, X) + op('OP_CHECK_ADAPTER_SIG'))
    dec = top(P(sa2, R, tb) + op('OP_DECRYPT_ADAPTER_SIG'))
    ok = ed.verify(X, m, dec[0] + dec[1]) if isinstance(dec, list) else dec
    print(label, 'check:', chk, 'decrypted sig valid:', ok)
# same question for plain signatures: CHECK_SIG with S + L or top bit set (libsodium rejects non-canonical S)
sig = ed.sign(seed, m)
for label, s2 in [('honest', sig), ('S bit255', sig[:63] + bytes([sig[63] ^ 0x80]))]:
    print('check_sig', label, top(P(s2, X) + op('OP_CHECK_SIG') + b'\x00', {'sigfield1': m}))
