import sys, random, collections
sys.path.insert(0, __import__('os').environ.get('VERIF_REPO','/repo'))
from tapescript import compile_script
from tapescript.functions import opcodes_inverse, opcode_aliases
random.seed(int(sys.argv[1]) if len(sys.argv)>1 else 1)
OPN = {k:v[0] for k,v in opcodes_inverse.items()}
inv_alias = collections.defaultdict(list)
for a, n in opcode_aliases.items(): inv_alias[n].append(a)
NOARG = ['OP_FALSE','OP_TRUE','OP_POP0','OP_SIZE','OP_DUP','OP_SHA256','OP_VERIFY','OP_EQUAL','OP_EVAL','OP_NOT','OP_RETURN','OP_DEPTH','OP_SWAP2','OP_CONCAT','OP_LESS','OP_XOR','OP_SPLIT','OP_DIV_INTS','OP_READ_CACHE_STACK']
BYTE1 = ['OP_POP1','OP_ADD_INTS','OP_COPY','OP_SHAKE256','OP_REVERSE','OP_CHECK_SIG','OP_SIGN','OP_CALL','OP_GET_MESSAGE','OP_TAPROOT','OP_CLAMP_SCALAR']
def case(s):
    r = random.random()
    return s.upper() if r<0.4 else s.lower() if r<0.8 else ''.join(ch.upper() if random.random()<.5 else ch.lower() for ch in s)
def name(op):
    return case(random.choice([op] + inv_alias[op]))
def comment():
    if random.random() < 0.15:
        q = random.choice(['#','"',"'"])
        words = ' '.join(random.choice(['hello','x01','d5','if','{','}','end_if','else','push','true','(',')','~','@x']) for _ in range(random.randint(0,3)))
        return f' {q} {words} {q} '
    return ' '
def gen(depth=0):
    """returns (src, bytes)"""
    r = random.random()
    if depth < 3 and r < 0.25:
        kind = random.choice(['if','ifelse','try','loop','def'] if depth==0 else ['if','ifelse','try','loop'])
        a_src, a_b = genseq(depth+1); b_src, b_b = genseq(depth+1)
        brace = random.random() < 0.6
        if not brace and kind in ('ifelse','try'):
            a_src += ' OP_DUP '; a_b += bytes([OPN['OP_DUP']])
        if kind == 'if':
            hoist = random.random()<0.3
            h_src, h_b = genseq(depth+1) if hoist else ('', b'')
            hs = f' ( {h_src} ) ' if hoist else ' '
            src = f'{case(random.choice(["if","op_if"]))}{hs}' + (f'{{ {a_src} }}' if brace else f'{a_src} {case("end_if")}')
            return src, h_b + bytes([OPN['OP_IF']]) + len(a_b).to_bytes(2,'big') + a_b
        if kind == 'ifelse':
            src = f'{case(random.choice(["if","op_if"]))} ' + (f'{{ {a_src} }} {case("else")} {{ {b_src} }}' if brace else f'{a_src} {case("else")} {b_src} {case("end_if")}')
            return src, bytes([OPN['OP_IF_ELSE']]) + len(a_b).to_bytes(2,'big') + a_b + len(b_b).to_bytes(2,'big') + b_b
        if kind == 'try':
            exc = random.random()<0.6
            if not exc: b_src, b_b = '', b''
            if brace:
                src = f'{case(random.choice(["try","op_try"]))} {{ {a_src} }}' + (f' {case("except")} {{ {b_src} }}' if exc else '')
            else:
                if not exc: 
                    src = f'{case("try")} {{ {a_src} }}'
                else:
                    src = f'{case("try")} {a_src} {case("except")} {b_src} {case("end_except")}'
            return src, bytes([OPN['OP_TRY_EXCEPT']]) + len(a_b).to_bytes(2,'big') + a_b + len(b_b).to_bytes(2,'big') + b_b
        if kind == 'loop':
            src = f'{case(random.choice(["loop","op_loop"]))} ' + (f'{{ {a_src} }}' if brace else f'{a_src} {case("end_loop")}')
            return src, bytes([OPN['OP_LOOP']]) + len(a_b).to_bytes(2,'big') + a_b
        if kind == 'def':
            n = random.randint(0,255)
            nm = random.choice([str(n), f'd{n}', f'x{n:02x}'])
            src = f'{case(random.choice(["def","op_def"]))} {nm} ' + (f'{{ {a_src} }}' if brace else f'{a_src} {case("end_def")}')
            return src, bytes([OPN['OP_DEF'], n]) + len(a_b).to_bytes(2,'big') + a_b
    if r < 0.5:
        op = random.choice(NOARG); return name(op), bytes([OPN[op]])
    if r < 0.7:
        op = random.choice(BYTE1); v = random.randint(0,255)
        sv = v-256 if v>127 else v
        arg = random.choice([f'x{v:02x}', f'd{sv}'])
        return f'{name(op)} {arg}', bytes([OPN[op], v])
    if r < 0.9:
        ln = random.choice([1,1,2,3,32,255,256,300])
        val = bytes(random.randrange(256) for _ in range(ln))
        enc = bytes([OPN['OP_PUSH0']])+val if ln==1 else bytes([OPN['OP_PUSH1'], ln])+val if ln<256 else bytes([OPN['OP_PUSH2']])+ln.to_bytes(2,'big')+val
        hx = val.hex(); hx = hx.upper() if random.random()<.3 else hx
        return f'{case(random.choice(["push","op_push"]))} x{hx}', enc
    if r < 0.95:
        n = random.randint(-300, 300)
        from tapescript import int_to_bytes
        val = int_to_bytes(n)
        enc = bytes([OPN['OP_PUSH0']])+val if len(val)==1 else bytes([OPN['OP_PUSH1'], len(val)])+val
        return f'{case("push")} d{n}', enc
    key = bytes(random.choice(b'abcxyzPE') for _ in range(random.randint(1,3)))
    cnt = random.randint(0,3)
    if random.random()<0.5:
        return f'{name("OP_WRITE_CACHE")} x{key.hex()} d{cnt}', bytes([OPN['OP_WRITE_CACHE'], len(key)]) + key + bytes([cnt])
    return f'@{key.decode()}', bytes([OPN['OP_READ_CACHE'], len(key)]) + key
def genseq(depth):
    parts = [gen(depth) for _ in range(random.randint(0,4))]
    src = ''; b = b''
    for s, e in parts:
        src += comment() + s; b += e
    return src + comment(), b
stats = collections.Counter(); examples = {}
for i in range(int(sys.argv[2]) if len(sys.argv)>2 else 5000):
    src, ref = genseq(0)
    try:
        out = compile_script(src)
    except BaseException as e:
        k = ('reject', type(e).__name__, str(e).split(' at ')[0][:50]); stats[k]+=1; examples.setdefault(k, src); continue
    if out == ref: stats['ok'] += 1
    else:
        stats['MISMATCH'] += 1
        if len(src) < len(examples.get('MISMATCH', 'x'*10000)): examples['MISMATCH'] = src; examples['MM'] = (out.hex(), ref.hex())
for k, v in stats.most_common(): print(v, k)
print('--- examples')
for k, v in examples.items(): print(k, '=>', repr(v)[:300])
