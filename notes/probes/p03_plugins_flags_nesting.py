import sys, os; sys.path.insert(0, os.environ.get('VERIF_REPO','/repo'))
import tapescript as ts, time, signal, tracemalloc, sys, resource
from tapescript import *
from tapescript import functions as F, parsing as P
c = compile_script
def tryrun(label, f):
    try:
        r = f()
        print(label, "->", r)
    except BaseException as e:
        print(label, "RAISED", type(e).__name__, str(e)[:100])

# C09 plugins in nested contexts
calls = []
def plug(tape, stack, cache): calls.append(1)
seed = b'\x11'*32
def probe(src, **kw):
    calls.clear()
    try:
        run_script(c(src), {'sigfield1': b'abc'}, plugins={'signature_extensions':[plug]}, **kw)
    except BaseException as e:
        return ('ERR', type(e).__name__, str(e)[:60], len(calls))
    return len(calls)
print("top", probe('msg x00'))
print("if", probe('true if { msg x00 }'))
print("ifelse-if", probe('true if { msg x00 } else { }'))
print("ifelse-else", probe('false if { } else { msg x00 }'))
print("try", probe('try { msg x00 } except { }'))
print("except", probe('try { false verify } except { msg x00 }'))
print("loop", probe('true loop { msg x00 pop0 false }'))
print("def/call", probe('def 0 { msg x00 } call d0'))
print("eval", probe('push ~ { msg x00 } eval'))
print("eval in if", probe('true if { push ~ { msg x00 } eval }'))
# flags after CALL / LOOP
def flagprobe(src):
    t,s,ca = run_script(c(src), additional_flags={1: False})
    return (b'x' in ca, t.flags.get(1))
print("flag top", flagprobe(f'push x{seed.hex()} derive_scalar'))
print("flag after call", flagprobe(f'def 0 {{ true }} call d0 push x{seed.hex()} derive_scalar'))
print("flag in call", flagprobe(f'def 0 {{ push x{seed.hex()} derive_scalar }} call d0'))
print("flag after loop", flagprobe(f'true loop {{ pop0 false }} push x{seed.hex()} derive_scalar'))
print("flag in loop", flagprobe(f'true loop {{ pop0 push x{seed.hex()} derive_scalar false }}'))
print("flag in if", flagprobe(f'true if {{ push x{seed.hex()} derive_scalar }}'))
print("flag in try", flagprobe(f'try {{ push x{seed.hex()} derive_scalar }}'))
print("flag in eval", flagprobe(f'push ~ {{ push x{seed.hex()} derive_scalar }} eval'))
# ts_threshold via additional flags in loop
# disallow eval in nested
def evalprobe(src):
    try:
        run_script(c(src), additional_flags={'disallow_OP_EVAL': True}); return 'ran'
    except BaseException as e: return type(e).__name__+':'+str(e)[:40]
for name, src in [('top','push ~ { true } eval'),('if','true if { push ~ { true } eval }'),('loop','true loop { pop0 push ~ { true } eval pop0 false }'),('def','def 0 { push ~ { true } eval } call d0'),('try','try { push ~ { true } eval } except { push x07 }')]:
    print("disallow eval", name, evalprobe(src))
