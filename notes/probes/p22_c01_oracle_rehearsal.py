"""C01 rehearsal: sentinel and composition oracles for run_auth_scripts."""
import sys, os, random, collections
sys.path.insert(0, os.environ.get('VERIF_REPO', '/repo'))
from tapescript import run_auth_scripts, run_script
from tapescript import functions as F, classes as C
rnd = random.Random(int(sys.argv[1]) if len(sys.argv) > 1 else 1)
FALSE,TRUE,PUSH0,POP0,DUP,VERIFY,DEF,CALL,IF,IFELSE,EVAL,NOT,RETURN,TRY,LOOP,PUSH1,DEPTH,WC,RC,EQ = 0,1,2,6,29,32,41,42,43,44,45,46,48,61,69,3,51,9,10,33
L2 = lambda b: len(b).to_bytes(2, 'big')
def gen(depth, allow_return=True, allow_ret_here=True):
    out = b''
    for _ in range(rnd.randint(0, 5)):
        r = rnd.random()
        if depth < 3 and r < 0.3:
            k = rnd.choice([IF, IF, IFELSE, TRY, LOOP, DEF, 'evalpush'])
            inner_ret = allow_return and (allow_ret_here or k in (DEF, 'evalpush'))
            ar = allow_return if k in (DEF, 'evalpush') else inner_ret
            a = gen(depth+1, allow_return, ar if k not in (DEF, 'evalpush') else True); b = gen(depth+1, allow_return, ar if k not in (DEF, 'evalpush') else True)
            if k == IF: out += bytes([rnd.choice([0,1,1]), IF]) + L2(a) + a
            elif k == LOOP:
                body = bytes([POP0]) + a + bytes([FALSE]); out += bytes([TRUE, LOOP]) + L2(body) + body + bytes([POP0])
            elif k == DEF: out += bytes([DEF, rnd.randint(0,2)]) + L2(a) + a
            elif k == 'evalpush':
                if 0 < len(a) < 256: out += bytes([PUSH1, len(a)]) + a + bytes([EVAL])
            elif k == IFELSE: out += bytes([rnd.choice([0,1]), IFELSE]) + L2(a) + a + L2(b) + b
            else: out += bytes([TRY]) + L2(a) + a + L2(b) + b
        elif r < 0.4: out += bytes([CALL, rnd.randint(0,2)])
        elif r < 0.5:
            if allow_return and allow_ret_here: out += bytes([RETURN])
        elif r < 0.58: out += bytes([WC, 1, rnd.choice(b'abPE'), rnd.choice([0,1])])
        else:
            op = rnd.choice([FALSE, TRUE, TRUE, POP0, DUP, VERIFY, NOT, DEPTH, PUSH0, EQ])
            out += bytes([op]) + (bytes([rnd.choice([0,1,255])]) if op == PUSH0 else b'')
    return out
def compose(scripts, limits):
    """hand composition through the public API; scrub 'returned' between scripts"""
    mi, ms, cl = limits
    try:
        tape, stack, cache = run_script(scripts[0], {}, stack_max_items=mi, stack_max_item_size=ms, callstack_limit=cl)
        if not tape.has_terminated(): return False
        for s in scripts[1:]:
            cache.pop('returned', None)
            t2 = C.Tape(s, callstack_limit=cl, callstack_count=tape.callstack_count, definitions=tape.definitions)
            t2.contracts = tape.contracts; t2.plugins = tape.plugins
            F.run_tape(t2, stack, cache)
            if not t2.has_terminated(): return False
            tape = t2
        return stack.list() == [b'\xff']
    except BaseException:
        return False
SENT = bytes([FALSE, VERIFY])
stats = collections.Counter(); ex = {}
N = int(sys.argv[2]) if len(sys.argv) > 2 else 20000
for i in range(N):
    n = rnd.randint(1, 3)
    wits = [gen(0) for _ in range(n)]
    lock = gen(0, allow_return=True, allow_ret_here=False)     # RETURN only inside DEF bodies / evaluated pushes
    lim = rnd.choice([(1024, 1024, 128), (4, 8, 3), (2, 1024, 16), (1024, 1024, 1)])
    kw = dict(stack_max_items=lim[0], stack_max_item_size=lim[1], callstack_limit=lim[2])
    # totality + composition
    for scripts in (wits + [lock], wits):
        try: got = run_auth_scripts(scripts, {}, **kw)
        except BaseException as e: stats['RAISED'] += 1; ex['RAISED'] = (scripts, repr(e)); continue
        exp = compose(scripts, lim)
        if got == exp: stats['compose agree ' + str(got)] += 1
        else:
            k = f'COMPOSE DISAGREE got={got} exp={exp}'; stats[k] += 1
            if k not in ex or sum(map(len, scripts)) < sum(map(len, ex[k])): ex[k] = scripts
    # sentinels
    for variant, scripts in (('tail', wits + [lock + SENT]), ('head', wits + [SENT + lock])):
        if run_auth_scripts(scripts, {}, **kw):
            k = 'SENTINEL SKIPPED ' + variant; stats[k] += 1
            if k not in ex or sum(map(len, scripts)) < sum(map(len, ex[k])): ex[k] = scripts
        else: stats['sentinel ok'] += 1
print(dict(stats))
for k, v in ex.items(): print(k, [s.hex() for s in v] if isinstance(v, list) else v)
