"""C13 rehearsal: signature / commitment builders, positive cases and single perturbations."""
import sys, os, random, collections
sys.path.insert(0, os.environ.get('VERIF_REPO', '/repo'))
from tapescript import *
from tapescript import functions as F
from nacl.signing import SigningKey
rnd = random.Random(int(sys.argv[1]) if len(sys.argv) > 1 else 1)
stats = collections.Counter()
def sk(): return bytes(rnd.randrange(256) for _ in range(32))
def pk(s): return bytes(SigningKey(s).verify_key)
def rb(n): return bytes(rnd.randrange(256) for _ in range(n))
def check(label, got, exp, ctx=''):
    k = label + (' ok' if got == exp else ' DISAGREE')
    stats[k] += 1
    if got != exp and stats[k] <= 4: print('DIS', label, 'got', got, 'exp', exp, ctx)
for trial in range(int(sys.argv[2]) if len(sys.argv) > 2 else 150):
    present = sorted(rnd.sample(range(1, 9), rnd.randint(1, 4)))
    sf = {f'sigfield{i}': rb(rnd.choice([0, 1, 8, 40])) for i in present}
    flag = 0
    for i in range(1, 9):
        if rnd.random() < 0.25: flag |= 1 << (i - 1)
    allowed = flag | (rnd.randrange(256) if rnd.random() < 0.5 else 0)
    if rnd.random() < 0.3: allowed = allowed & ~(1 << rnd.randrange(8))
    permitted = (flag & ~allowed) == 0
    fh, ah = f'{flag:02x}', f'{allowed:02x}'
    covered = [i for i in present if not (flag >> (i - 1)) & 1]; excluded = [i for i in present if (flag >> (i - 1)) & 1]
    def mutate(fields, idxs):
        if not idxs: return None
        i = rnd.choice(idxs); d = dict(fields); d[f'sigfield{i}'] = fields[f'sigfield{i}'] + b'!'; return d
    s1, s2 = sk(), sk(); p1, p2 = pk(s1), pk(s2)
    # single sig, both layouts
    for lockf, witf, name in ((make_single_sig_lock, make_single_sig_witness, 'single'), (make_single_sig_lock2, make_single_sig_witness2, 'single2')):
        lock = lockf(p1, ah)
        w = witf(s1, sf, fh)
        check(name + ' honest', run_auth_scripts([w, lock], sf), permitted)
        check(name + ' other key', run_auth_scripts([witf(s2, sf, fh), lock], sf), False)
        m = mutate(sf, covered)
        if m: check(name + ' covered changed', run_auth_scripts([w, lock], m), False)
        m = mutate(sf, excluded)
        if m: check(name + ' excluded changed', run_auth_scripts([w, lock], m), permitted)
        absent = [i for i in range(1, 9) if i not in present]
        if absent:
            d = dict(sf); i = rnd.choice(absent); d[f'sigfield{i}'] = b'new'
            check(name + ' absent field added', run_auth_scripts([w, lock], d), permitted and bool((flag >> (i - 1)) & 1))
    # scripthash
    S = Script.from_src(f'push x{rb(4).hex()} equal'); S2 = Script.from_src(f'push x{rb(4).hex()} equal')
    hsz = rnd.choice([1, 20, 26, 32, 64]); lock = make_scripthash_lock(S, hsz)
    pre = Script.from_bytes(S.bytes[:6])    # the push of the same value -> equal -> true
    check('scripthash honest', run_auth_scripts([pre, make_scripthash_witness(S), lock], sf), True)
    check('scripthash other script', run_auth_scripts([pre, make_scripthash_witness(S2), lock], sf), False)
    # graftroot
    gl = make_graftroot_lock(p1, ah)
    check('graftroot key', run_auth_scripts([make_graftroot_witness_keyspend(s1, sf, fh), gl], sf), permitted)
    check('graftroot key other', run_auth_scripts([make_graftroot_witness_keyspend(s2, sf, fh), gl], sf), False)
    sur = Script.from_src('true')
    check('graftroot surrogate', run_auth_scripts([make_graftroot_witness_surrogate(s1, sur), gl], sf), True)
    check('graftroot surrogate wrong signer', run_auth_scripts([make_graftroot_witness_surrogate(s2, sur), gl], sf), False)
    # surrogate swapped after signing: take witness for `true` and replace the pushed script by `push x01` (also truthy)
    wb = make_graftroot_witness_surrogate(s1, sur).bytes
    forged = wb.replace(b'\x02\x01\x01', b'\x03\x02\x02\x01\x01') if False else None
    # graftap
    gal = make_graftap_lock(p1, ah)
    check('graftap key', run_auth_scripts([make_graftap_witness_keyspend(s1, sf, fh), gal], sf), permitted and fh != 'ff') if fh != 'ff' else None
    check('graftap script', run_auth_scripts([make_graftap_witness_scriptspend(s1, sur), gal], sf), True)
    check('graftap script wrong signer', run_auth_scripts([make_graftap_witness_scriptspend(s2, sur), gal], sf), False)
    # cross: taproot-style keyspend witness against single-sig lock on p1 -> signed by tweaked key, not p1
    if fh != 'ff': check('cross graftap-key vs single lock', run_auth_scripts([make_graftap_witness_keyspend(s1, sf, fh), make_single_sig_lock(p1, ah)], sf), False)
    check('cross single witness vs graftroot lock', run_auth_scripts([make_single_sig_witness(s1, sf, fh), gl], sf), False)
for k, v in sorted(stats.items()): print(v, k)
