import sys, os, random, collections
sys.path.insert(0, os.environ.get('VERIF_REPO','/repo'))
from tapescript import functions as F, classes as C
from tapescript import compile_script as c
random.seed(int(sys.argv[1]) if len(sys.argv)>1 else 1)
class RecDict(dict):
    def __init__(self, *a, **k): super().__init__(*a, **k); self.log = []
    def __setitem__(self, k, v): self.log.append(('set', k)); super().__setitem__(k, v)
    def __delitem__(self, k): self.log.append(('del', k)); super().__delitem__(k)
    def pop(self, k, *a): self.log.append(('pop', k)); return super().pop(k, *a)
    def update(self, *a, **k): self.log.append(('update', None)); super().update(*a, **k)
    def setdefault(self, k, d=None): self.log.append(('setdefault', k)); return super().setdefault(k, d)
    def clear(self): self.log.append(('clear', None)); super().clear()
names = [b'sigfield1', b'timestamp', b'sigfield8', b'custom', b'E', b'P', b'x']
seed = bytes(range(32))
def ins():
    r = random.random()
    k = random.choice(names + [b'a', b'', b'sigfield1\x00'])
    if r < 0.2: return bytes([9, len(k)]) + k + bytes([random.randint(0,2)])       # WRITE_CACHE
    if r < 0.25: return bytes([6])
    if r < 0.3: return bytes([7, random.randint(0,2)])
    if r < 0.4: return bytes([3, len(k)]) + k + bytes([random.choice([12, 13])])   # push key; RCS/RCSZ
    if r < 0.5: return bytes([64, len(k)]) + k                                      # GET_VALUE
    if r < 0.55: return bytes([3, 32]) + seed + bytes([75])                         # derive_scalar
    if r < 0.6: return bytes([3, 32]) + seed + bytes([73, random.randint(0,255)])   # sign
    if r < 0.65: return bytes([61, 0, 1, 32, 0, 0])                                 # try { verify } except {}
    if r < 0.7: return bytes([10, len(k)]) + k                                      # READ_CACHE
    if r < 0.75: return bytes([48])                                                 # RETURN
    if r < 0.8: return bytes([5, random.randint(0,255)])                            # GET_MESSAGE
    if r < 0.9: return bytes([random.choice([0,1,29,46])])
    return bytes([random.randrange(256) for _ in range(random.randint(1,4))])
def prog(depth=0):
    out = b''
    for _ in range(random.randint(1,6)):
        if depth < 2 and random.random() < 0.2:
            b = prog(depth+1); out += bytes([1, random.choice([43, 69])]) + len(b).to_bytes(2,'big') + b + (b'' if out[-1:] else b'')
        else: out += ins()
    return out
stats = collections.Counter()
for i in range(int(sys.argv[2]) if len(sys.argv)>2 else 20000):
    code = prog()
    emb = {'sigfield1': b'abc', 'sigfield8': b'zzz', 'timestamp': 1700000000, 'custom': [b'q', 5], 'E': b'e', 'P': 'p', 'x': 1.5}
    cache = RecDict({k: (list(v) if isinstance(v, list) else v) for k, v in emb.items()})
    tape = C.Tape(code); stack = C.Stack()
    try:
        F.run_tape(tape, stack, cache); stats['ok'] += 1
    except RecursionError: stats['rec'] += 1
    except BaseException as e: stats['err'] += 1
    bad = [(op, k) for op, k in cache.log if not isinstance(k, bytes) and k != 'returned']
    if bad: stats['VIOLATION'] += 1; print("VIOL", code.hex(), bad[:3])
    if any(cache.get(k) != v for k, v in emb.items()): stats['VALUE-CHANGED'] += 1; print("CHG", code.hex())
    if any(op == 'set' and k in names for op, k in cache.log): stats['wrote-protected-spelling'] += 1
    if any(k == 'returned' for _, k in cache.log): stats['returned-written'] += 1
print(dict(stats))
