#!/venv/bin/python
"""tools/mkreplay.py <ID> <name> '<python literal of the case dict>' -> replays/regress/<ID>-<name>.json (after confirming what it reports)"""
import sys, os, json, ast
sys.path.insert(0, os.path.dirname(os.path.dirname(os.path.abspath(__file__))))
from vt.util import to_jsonable
import importlib
pid, name, lit = sys.argv[1], sys.argv[2], sys.argv[3]
case = ast.literal_eval(lit)
mod = importlib.import_module('vt.props.' + pid.lower())
out = mod.check_case(case)
print('check_case reports:', out)
path = os.path.join(os.path.dirname(os.path.dirname(os.path.abspath(__file__))), 'replays', 'regress', '%s-%s.json' % (pid, name))
json.dump({'property': pid, 'check': case.get('check'), 'signature': out[0][0] if out else None, 'detail': out[0][1] if out else '',
           'minimised': True, 'case': to_jsonable(case)}, open(path, 'w'), indent=1, sort_keys=True)
print('wrote', path)
