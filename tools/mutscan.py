#!/usr/bin/env python3
"""Bulk sensitivity scan: tools/mutscan.py --file tapescript/functions.py --n 60 [--seed 7] [--out mutscan/functions.jsonl]
                                            [--func REGEX] [--kinds cmp,bool,const,arith,not,guard]

Enumerates one-token mutation sites of a repository file with the ast module (comparison operators, and/or, small
integer constants +-1, + / -, dropped `not`, deleted sert / vert / tert / assert guards), samples --n of them with a
seeded PRNG, and for each sampled site
  1. applies it to a scratch copy of /repo (never /repo itself),
  2. runs the repository's test suite there; only mutants the suite does NOT notice (exactly the baseline result) go on,
  3. runs the quick tier of the checks mapped to the enclosing function (VERIF_REPO=<copy>, --no-shrink) until one
     reports a violation,
and appends one JSON line per mutant to --out.  Survivors are either equivalent mutants (outside every listed
property) or gaps; they are triaged by hand and the outcome is recorded in DESIGN.md section 10.3.
The scratch copy is removed after every mutant."""
import argparse, ast, json, os, random, re, shutil, subprocess, sys, tempfile, time

V = os.path.dirname(os.path.dirname(os.path.abspath(__file__)))
REPO = '/repo'
BASELINE = ('3 failed', '267 passed')


def checks_for(path, func):
    f = func or ''
    base = os.path.basename(path)
    if base == 'classes.py':
        return ['C07', 'C06', 'C09', 'C12']
    if base == 'parsing.py':
        if 'decompile' in f:
            return ['C12', 'C20']
        return ['C11', 'C12', 'C19', 'C20']
    if base == 'tools.py':
        table = [(r'merkl|ScriptLeaf|ScriptNode|script_tree', ['C04']), (r'taproot|graftap', ['C05', 'C13']),
                 (r'delegate|Certificate', ['C14']), (r'htlc|ptlc', ['C15', 'C18']), (r'timestamp|epoch', ['C16']),
                 (r'adapter', ['C17', 'C13', 'C18']), (r'amhl|AMHL', ['C18']), (r'soft_fork', ['C20']),
                 (r'single_sig|multisig|graftroot|scripthash', ['C13', 'C03']), (r'Script|_pubkey|_prvkey', ['C13', 'C19', 'C12'])]
        for rx, cs in table:
            if re.search(rx, f):
                return cs
        return ['C13']
    table = [(r'OP_CHECK_MULTISIG', ['C03', 'C06']), (r'OP_CHECK_SIG|OP_SIGN|OP_GET_MESSAGE|sign_with_scalar', ['C02', 'C06', 'C13']),
             (r'OP_MERKLEVAL', ['C04', 'C06']), (r'OP_TAPROOT', ['C05', 'C06']),
             (r'ADAPTER|adapter', ['C17', 'C06']), (r'aggregate_points|clamp_scalar|derive_|POINT|SCALAR|H_small|H_big|aggregate', ['C06', 'C05', 'C17', 'C18']),
             (r'OP_CHECK_TIMESTAMP|OP_CHECK_EPOCH', ['C16', 'C06', 'C14', 'C15']),
             (r'OP_SET_FLAG|OP_UNSET_FLAG|set_tape_flags', ['C09', 'C06']),
             (r'^OP_(IF|IF_ELSE|TRY_EXCEPT|LOOP|DEF|CALL|EVAL|RETURN)$', ['C06', 'C01', 'C07', 'C09']),
             (r'run_auth|run_script|run_tape', ['C01', 'C09', 'C07', 'C06']),
             (r'NOP|soft_fork|add_opcode', ['C20', 'C06']),
             (r'int_to_bytes|bytes_to_int|float|bytes_to_bool|uint', ['C10', 'C11', 'C06']),
             (r'plugin|contract|interface', ['C19', 'C09', 'C06']),
             (r'OP_CHECK_TEMPLATE|OP_INVOKE|OP_CHECK_TRANSFER', ['C06', 'C09']),
             (r'CACHE|OP_POP|OP_GET_VALUE|OP_MSG', ['C06', 'C08', 'C07'])]
    for rx, cs in table:
        if re.search(rx, f):
            return cs
    return ['C06', 'C07', 'C09']


class Sites(ast.NodeVisitor):
    def __init__(self, src):
        self.lines = src.split('\n')
        self.sites = []
        self.func = []
        self.doc_lines = set()

    def seg(self, line, a, b):
        return self.lines[line - 1][a:b]

    def add(self, kind, line, a, b, new, note=''):
        old = self.lines[line - 1][a:b]
        if old == new:
            return
        self.sites.append(dict(kind=kind, line=line, a=a, b=b, old=old, new=new, func='.'.join(self.func) or '<module>', note=note))

    def visit_FunctionDef(self, node):
        self.func.append(node.name)
        body = node.body
        if body and isinstance(body[0], ast.Expr) and isinstance(getattr(body[0], 'value', None), ast.Constant) and isinstance(body[0].value.value, str):
            body = body[1:]
        for d in node.args.defaults:
            pass
        for st in body:
            self.visit(st)
        self.func.pop()

    visit_AsyncFunctionDef = visit_FunctionDef

    def visit_ClassDef(self, node):
        self.func.append(node.name)
        self.generic_visit(node)
        self.func.pop()

    def _between(self, kind, left, right, table):
        if left.end_lineno != right.lineno:
            return
        line = left.end_lineno
        txt = self.seg(line, left.end_col_offset, right.col_offset)
        for old, new in table:
            m = re.search(r'(?<![<>=!])' + re.escape(old) + r'(?![=])' if old in ('<', '>') else re.escape(old), txt)
            if m:
                a = left.end_col_offset + m.start()
                self.add(kind, line, a, a + len(old), new)
                return

    def visit_Compare(self, node):
        if len(node.ops) == 1:
            op = type(node.ops[0]).__name__
            table = {'Lt': [('<', '<=')], 'LtE': [('<=', '<')], 'Gt': [('>', '>=')], 'GtE': [('>=', '>')], 'Eq': [('==', '!=')],
                     'NotEq': [('!=', '==')], 'In': [(' in ', ' not in ')], 'NotIn': [(' not in ', ' in ')],
                     'Is': [(' is ', ' is not ')], 'IsNot': [(' is not ', ' is ')]}.get(op)
            if table:
                self._between('cmp', node.left, node.comparators[0], table)
        self.generic_visit(node)

    def visit_BoolOp(self, node):
        old, new = (' and ', ' or ') if isinstance(node.op, ast.And) else (' or ', ' and ')
        self._between('bool', node.values[0], node.values[1], [(old, new)])
        self.generic_visit(node)

    def visit_BinOp(self, node):
        if isinstance(node.op, (ast.Add, ast.Sub)) and not isinstance(node.left, ast.Constant) or isinstance(node.op, (ast.Add, ast.Sub)):
            if not (isinstance(node.left, (ast.Constant, ast.JoinedStr)) and isinstance(getattr(node.left, 'value', None), (str, bytes))):
                old, new = ('+', '-') if isinstance(node.op, ast.Add) else ('-', '+')
                self._between('arith', node.left, node.right, [(old, new)])
        self.generic_visit(node)

    def visit_UnaryOp(self, node):
        if isinstance(node.op, ast.Not) and node.lineno == node.operand.lineno:
            self.add('not', node.lineno, node.col_offset, node.operand.col_offset, '')
        self.generic_visit(node)

    def visit_Constant(self, node):
        v = node.value
        if type(v) is int and 0 <= v <= 1024 and node.lineno == node.end_lineno:
            txt = self.seg(node.lineno, node.col_offset, node.end_col_offset)
            if txt == str(v):
                self.add('const', node.lineno, node.col_offset, node.end_col_offset, str(v + 1))
                if v > 0:
                    self.add('const', node.lineno, node.col_offset, node.end_col_offset, str(v - 1))

    def visit_Expr(self, node):
        c = node.value
        if isinstance(c, ast.Call) and isinstance(c.func, ast.Name) and c.func.id in ('sert', 'vert', 'tert', 'yert'):
            self.sites.append(dict(kind='guard', line=node.lineno, end_line=node.end_lineno, a=node.col_offset, b=None,
                                   old=self.lines[node.lineno - 1].strip()[:80], new='pass', func='.'.join(self.func) or '<module>', note=''))
            return
        self.generic_visit(node)

    def visit_Assert(self, node):
        self.sites.append(dict(kind='guard', line=node.lineno, end_line=node.end_lineno, a=node.col_offset, b=None,
                               old=self.lines[node.lineno - 1].strip()[:80], new='pass', func='.'.join(self.func) or '<module>', note=''))


def apply_site(src, s):
    lines = src.split('\n')
    if s['kind'] == 'guard':
        lines[s['line'] - 1:s['end_line']] = [' ' * s['a'] + 'pass']
    else:
        ln = lines[s['line'] - 1]
        lines[s['line'] - 1] = ln[:s['a']] + s['new'] + ln[s['b']:]
    return '\n'.join(lines)


def main():
    ap = argparse.ArgumentParser()
    ap.add_argument('--file', required=True)
    ap.add_argument('--n', type=int, default=40)
    ap.add_argument('--seed', type=int, default=7)
    ap.add_argument('--out', required=True)
    ap.add_argument('--func')
    ap.add_argument('--kinds', default='cmp,bool,const,arith,not,guard')
    ap.add_argument('--list', action='store_true')
    a = ap.parse_args()
    src = open(os.path.join(REPO, a.file)).read()
    sv = Sites(src)
    sv.visit(ast.parse(src))
    kinds = set(a.kinds.split(','))
    sites = [s for s in sv.sites if s['kind'] in kinds and (not a.func or re.search(a.func, s['func']))]
    print('%d sites in %s' % (len(sites), a.file), flush=True)
    if a.list:
        for s in sites:
            print(s)
        return
    rnd = random.Random(a.seed)
    rnd.shuffle(sites)
    done = set()
    out = os.path.join(V, a.out) if not os.path.isabs(a.out) else a.out
    os.makedirs(os.path.dirname(out), exist_ok=True)
    if os.path.exists(out):
        for l in open(out):
            r = json.loads(l)
            done.add((r['file'], r['line'], r['a'], r['new']))
    n = 0
    for s in sites:
        if n >= a.n:
            break
        key = (a.file, s['line'], s['a'], s['new'])
        if key in done:
            continue
        n += 1
        try:
            mutated = apply_site(src, s)
            ast.parse(mutated)
        except SyntaxError:
            continue
        d = tempfile.mkdtemp(prefix='vt-ms-')
        rec = dict(file=a.file, **{k: s[k] for k in ('kind', 'line', 'a', 'old', 'new', 'func')})
        try:
            for item in ('tapescript', 'docs.md', 'language_spec.md', 'tests', 'readme.md'):
                p = os.path.join(REPO, item)
                if os.path.isdir(p):
                    shutil.copytree(p, os.path.join(d, item), ignore=shutil.ignore_patterns('__pycache__'))
                elif os.path.exists(p):
                    shutil.copy(p, d)
            open(os.path.join(d, a.file), 'w').write(mutated)
            t0 = time.time()
            try:
                r = subprocess.run(['/venv/bin/python', '-m', 'pytest', '-q', '-x', '--maxfail=4', '-p', 'no:cacheprovider'], cwd=d,
                                   capture_output=True, text=True, timeout=300, env=dict(os.environ, PYTHONDONTWRITEBYTECODE='1'))
                tail = (r.stdout.strip().splitlines() or [''])[-1]
            except subprocess.TimeoutExpired:
                tail = 'timeout'
            rec['pytest'] = tail[:80]
            if not all(x in tail for x in BASELINE):
                rec['verdict'] = 'killed-by-tests'
            else:
                rec['checks'] = {}
                rec['verdict'] = 'SURVIVED'
                for cid in checks_for(a.file, s['func']):
                    env = dict(os.environ, VERIF_REPO=d, VERIF_OUT=os.path.join(d, 'out'), VERIF_SEED='1')
                    t1 = time.time()
                    try:
                        r = subprocess.run([os.path.join(V, 'check'), cid, '--tier', 'quick', '--no-shrink'], env=env, capture_output=True,
                                           text=True, timeout=1500)
                        code = r.returncode
                        b = [l.strip()[:200] for l in r.stdout.splitlines() if l.startswith('  bucket')][:2]
                    except subprocess.TimeoutExpired:
                        code, b = 'timeout', []
                    rec['checks'][cid] = dict(exit=code, buckets=b, wall=round(time.time() - t1, 1))
                    if code in (1, 'timeout'):
                        rec['verdict'] = 'caught:' + cid + (' (hang)' if code == 'timeout' else '')
                        break
                    if code == 2:
                        rec['verdict'] = 'harness-error:' + cid
                        rec['stderr'] = (r.stdout[-600:] + r.stderr[-600:])
                        break
            rec['wall'] = round(time.time() - t0, 1)
        finally:
            shutil.rmtree(d, ignore_errors=True)
        with open(out, 'a') as f:
            f.write(json.dumps(rec) + '\n')
        print('%-16s %s:%d %s [%s] %r -> %r' % (rec['verdict'], a.file, s['line'], s['func'], s['kind'], s['old'], s['new']), flush=True)


if __name__ == '__main__':
    main()
