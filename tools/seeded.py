#!/usr/bin/env python3
"""tools/seeded.py <PID> <src seeded dir> <k> <name> [--also PID2,PID3]
Confirms a sub-agent's seeded change in a fresh scratch worktree of /repo HEAD (suite unchanged, demo 0 -> 1), then applies it
to /repo, runs the registered quick check(s), undoes it, and stores everything under /verif/seeded/<PID>-<name>/."""
import sys, os, subprocess, shutil, json, tempfile, re, time
V = os.path.dirname(os.path.dirname(os.path.abspath(__file__)))
pid, src, k, name = sys.argv[1:5]
also = []
if '--also' in sys.argv:
    also = sys.argv[sys.argv.index('--also') + 1].split(',')
patch = os.path.join(src, 'patch%s.diff' % k)
demo = os.path.join(src, 'demo%s.py' % k)
notes = os.path.join(src, 'notes%s.md' % k)
def sh(cmd, **kw):
    return subprocess.run(cmd, shell=True, capture_output=True, text=True, **kw)
def pytest_tail(d):
    r = sh('cd %s && /venv/bin/python -m pytest -q -p no:cacheprovider 2>&1 | tail -1' % d)
    return r.stdout.strip()
meta = {'property': pid, 'name': name, 'source': 'independent sub-agent given only the property text and a scratch worktree', 'ran': []}
wt = tempfile.mkdtemp(prefix='seed-eval-')
os.rmdir(wt)
try:
    r = sh('git -C /repo worktree add -q --detach %s HEAD' % wt)
    assert r.returncode == 0, r.stderr
    os.makedirs(os.path.join(wt, 'seeded'))
    shutil.copy(demo, os.path.join(wt, 'seeded', 'demo.py'))
    base = pytest_tail(wt)
    d0 = sh('cd %s && /venv/bin/python seeded/demo.py' % wt, timeout=600)
    ap = sh('git -C %s apply --3way %s' % (wt, os.path.abspath(patch)))
    if ap.returncode != 0:
        ap = sh('cd %s && patch -p1 < %s' % (wt, os.path.abspath(patch)))
    meta['applies_to_current_head'] = ap.returncode == 0
    if ap.returncode != 0:
        print('PATCH DOES NOT APPLY', ap.stdout, ap.stderr); sys.exit(3)
    sh('git -C %s reset -q' % wt)
    newpatch = sh('git -C %s diff -- tapescript' % wt).stdout
    patched = pytest_tail(wt)
    d1 = sh('cd %s && /venv/bin/python seeded/demo.py' % wt, timeout=600)
    meta['pytest_clean'] = base; meta['pytest_patched'] = patched
    meta['demo_exit_clean'] = d0.returncode; meta['demo_exit_patched'] = d1.returncode
    meta['demo_output_patched_tail'] = d1.stdout[-600:]
    meta['ran'] += ['fresh worktree of /repo HEAD: pytest -> %r; demo exit %d' % (base, d0.returncode),
                    'same with patch applied: pytest -> %r; demo exit %d' % (patched, d1.returncode)]
    ok = ('267 passed' in base and '3 failed' in base and base.split(' in ')[0] == patched.split(' in ')[0] and d0.returncode == 0 and d1.returncode == 1)
    meta['confirmed'] = ok
    print('confirm:', base, '|', patched, '| demo', d0.returncode, '->', d1.returncode, '| CONFIRMED' if ok else '| NOT CONFIRMED')
    if ok and '--in-repo' not in sys.argv:
        # run the registered quick check(s) against the patched scratch worktree (VERIF_REPO) - used while /repo itself is
        # busy with a long background run; equivalent to patching /repo because the checks import tapescript from VERIF_REPO
        dest = os.path.join(V, 'seeded', '%s-%s' % (pid, name))
        os.makedirs(dest, exist_ok=True)
        open(os.path.join(dest, 'patch.diff'), 'w').write(newpatch)
        shutil.copy(demo, os.path.join(dest, 'demo.py'))
        if os.path.exists(notes):
            shutil.copy(notes, os.path.join(dest, 'notes.md'))
        results = {}
        out = tempfile.mkdtemp(prefix='seed-out-')
        for p_ in [pid] + also:
            t0 = time.time()
            rr = sh('cd %s && VERIF_REPO=%s VERIF_OUT=%s ./check %s --tier quick --no-shrink' % (V, wt, out, p_), timeout=3600)
            buckets = [l.strip()[:300] for l in rr.stdout.splitlines() if l.startswith('  bucket')]
            results[p_] = {'exit': rr.returncode, 'caught': rr.returncode == 1, 'buckets': buckets[:6], 'wall_s': round(time.time() - t0, 1)}
            print(p_, 'exit', rr.returncode, 'CAUGHT' if rr.returncode == 1 else 'MISSED' if rr.returncode == 0 else 'HARNESS-ERROR', buckets[:2])
        shutil.rmtree(out, ignore_errors=True)
        meta['ran'].append('VERIF_REPO=<that patched worktree> ./check <ID> --tier quick --no-shrink (VERIF_OUT scratch) for %s' % ', '.join([pid] + also))
        meta['check_results'] = results
        meta['caught_by'] = [p_ for p_, v in results.items() if v['caught']]
        json.dump(meta, open(os.path.join(dest, 'meta.json'), 'w'), indent=1)
        print('stored', dest)
finally:
    sh('git -C /repo worktree remove --force %s' % wt)
    shutil.rmtree(wt, ignore_errors=True)
if not meta.get('confirmed'):
    print(json.dumps(meta, indent=1)[:1500]); sys.exit(4)
if '--in-repo' not in sys.argv:
    sys.exit(0)
dest = os.path.join(V, 'seeded', '%s-%s' % (pid, name))
os.makedirs(dest, exist_ok=True)
open(os.path.join(dest, 'patch.diff'), 'w').write(newpatch)
shutil.copy(demo, os.path.join(dest, 'demo.py'))
if os.path.exists(notes):
    shutil.copy(notes, os.path.join(dest, 'notes.md'))
# run the checks against /repo with the change applied, then undo
assert sh('git -C /repo status --porcelain --untracked-files=no').stdout.strip() == '', '/repo not clean'
results = {}
out = tempfile.mkdtemp(prefix='seed-out-')
try:
    r = sh('git -C /repo apply %s' % os.path.join(dest, 'patch.diff'))
    assert r.returncode == 0, r.stderr
    for p in [pid] + also:
        t0 = time.time()
        rr = sh('cd %s && VERIF_OUT=%s ./check %s --tier quick --no-shrink' % (V, out, p), timeout=3600)
        buckets = [l.strip()[:300] for l in rr.stdout.splitlines() if l.startswith('  bucket')]
        results[p] = {'exit': rr.returncode, 'caught': rr.returncode == 1, 'buckets': buckets[:6], 'wall_s': round(time.time() - t0, 1)}
        if rr.returncode == 2:
            results[p]['harness'] = [l[:300] for l in rr.stdout.splitlines() if 'HARNESS' in l][:3]
        print(p, 'exit', rr.returncode, 'CAUGHT' if rr.returncode == 1 else 'MISSED' if rr.returncode == 0 else 'HARNESS-ERROR', buckets[:2])
finally:
    sh('git -C /repo checkout -- .')
    shutil.rmtree(out, ignore_errors=True)
assert sh('git -C /repo status --porcelain --untracked-files=no').stdout.strip() == ''
meta['ran'].append('git -C /repo apply patch.diff; ./check <ID> --tier quick --no-shrink (VERIF_OUT scratch) for %s; git -C /repo checkout -- .' % ', '.join([pid] + also))
meta['check_results'] = results
meta['caught_by'] = [p for p, v in results.items() if v['caught']]
json.dump(meta, open(os.path.join(dest, 'meta.json'), 'w'), indent=1)
print('stored', dest)
