#!/usr/bin/env python3
"""Regenerates MANIFEST.json from the table below (kept next to the code so the two stay in sync)."""
import json, os
V = os.path.dirname(os.path.dirname(os.path.abspath(__file__)))
BASE = "cd /repo && /venv/bin/python -m pytest -ra -q -p no:cacheprovider --timeout=900 --continue-on-collection-errors"

CHECKS = {
 'C12': dict(
   technique='exhaustive enumeration of short byte strings + Hypothesis binary / corpus mutation under a monitoring Tape (progress invariant); round-trip and reference-disassembler oracle on compiler and builder output',
   text='Generated-input search. Termination: all byte strings of length <= 2 (quick; <= 3 in thorough) enumerated completely, plus random strings to 70 KiB and mutated corpus, each decompiled under a Tape subclass that records any negative read or backward pointer move (so a hang is detected as a broken progress invariant, not waited for). Round trip: compile_script output of generated programs (nesting <= 4, operand sizes around 2^7, 2^8, 2^15, 2^16), every builder output for varied keys / flags / leaf counts and all repository vectors must recompile from their listing to identical bytes, and the listing must equal an independent reference disassembly. Exploration, not proof: absence is established only on the enumerated sub-domain.',
   note='Trusts the reference disassembler / listing reader in vt/refasm.py (written from docs.md operand shapes) and that every decompiler loop iteration reads through Tape.read (true for the code read).',
   design='3/C12'),
}
CHECKS['C11'] = dict(
   technique='grammar-based Hypothesis generation of source trees x spelling vectors; differential against a reference assembler; feature-ablation attribution of failures',
   text='Generated-input search over abstract programs (all 92 ops + NOP codes, nesting <= 4, variables, macros, both comptime forms, hoisted conditions) rendered under drawn spelling vectors (names / aliases / letter case / brace vs END_ / value prefixes / push sizes / comments incl. hostile comment bodies). Whatever compile_script accepts must equal the reference encoding byte for byte; unencodable programs must be rejected; Script.from_src must agree. Vacuity guards keep canonical acceptance >= 95 % and overall >= 50 %.',
   note='Trusts the reference assembler and lowering rules (vt/refasm.py, vt/render.py) written from language_spec.md / docs.md; rejections of encodable sources are outside the property and only counted.',
   design='3/C11')
CHECKS['C10'] = dict(
   technique='complete enumeration of integer ranges / power-of-two neighbourhoods / short strings / float exponent classes + Hypothesis big integers; differential against int.to_bytes/from_bytes and a hand-written binary32 decoder',
   text='Generated-input search with exact oracles. Complete: all integers in [-2^17, 2^17], 2^k + d for k <= 16384 and |d| <= 3 (both signs), 2^k - 1 and -(2^k) to k = 2000, all 1- and 2-byte strings, all 512 float sign x exponent classes with boundary and drawn mantissas. Random: integers to 8192 bits biased to byte boundaries and >= 2^53, strings to 1 KiB, and the integer instructions (ADD/SUBTRACT/MULT/DIV/MOD_INTS, DIV_INT, MOD_INT, LESS, LESS_OR_EQUAL) through run_script at item size 4096 against Python integers.',
   note='Non-minimal encodings are allowed by the property (only value, sign bit and round trip are required). Signalling-NaN payloads may be quieted by the platform. DIV/MOD are compared for non-negative dividends and positive divisors only (rounding direction for negatives is C06 territory).',
   design='3/C10')
CHECKS['C16'] = dict(
   technique='complete boundary grid + Hypothesis 63-bit quadruples against the formulas of the statement, clock pinned by rebinding functions.time / tools.time',
   text='Generated-input search with a specification-predicate oracle. Complete grid: constraint c x threshold x (t - c in -2..2) x ((t - now) - threshold in -2..2) x fractional / integral clock x minimal / padded / 9-byte encodings for the four instructions through run_script; ts x t x threshold grid for the three lock builders with op_verify on and off through run_auth_scripts; Hypothesis quadruples up to 63 bits concentrated on the boundaries. One open known finding (before-lock beyond slack) is excluded by its specific signature.',
   note='now = int(clock); clocks non-negative; fractional clocks only below 2^32 (a double cannot hold a larger value with a fraction). CHECK_EPOCH with a negative threshold is a documented error and not compared.',
   design='3/C16')
CHECKS['C20'] = dict(
   technique='complete enumeration of NOP code x count x depth against the documented semantics; differential old VM vs upgraded VM (add_soft_fork) on Hypothesis-generated scripts; compile/decompile reachability matrix over names, aliases and nesting contexts',
   text='Part 1 is exhaustive over all 164 unassigned codes x 256 count bytes x 6 stack depths (run_script outcome, stack, cache, tape position) plus compile / decompile naming for every code x count. Part 2 is generated-input search: fork ops following the readme contract installed at free codes; every generated script (fork op at any nesting depth, never inside TRY) must satisfy upgraded-authorises => old-authorises and leave identical state when the fork op did not raise; every name / alias spelling in every block context must compile on the upgraded VM to the bytes of the NOPn spelling and be accepted wherever NOPn is; decompile must name the op and round-trip.',
   note='Both VMs live in one worker process: registries are snapshotted and restored in place between configurations. The fork-op family is the readme contract (signed count, pull that many, raise or not); ops that do other things are outside the property.',
   design='3/C20')
CHECKS['C07'] = dict(
   technique='Hypothesis-generated resource-hungry programs x limit triples executed under step monitors (deque, Tape, run_tape, CALL/EVAL chain) and tracemalloc; invariants checked on every mutation / read / activation',
   text='Generated-input search with step invariants. Monitors (harness-side subclasses of deque / Stack / Tape and wrappers of run_tape / OP_CALL / OP_EVAL) check after every stack mutation that length <= max_items and every item <= max_item_size, that no append reaches a deque at maxlen (silent drop), that every read is non-negative, in bounds and monotone per activation, that the live CALL/EVAL chain and callstack_count stay <= the limit, that loop resets stay <= the limit, and that every rejected put / read / call ends in ScriptExecutionError. Escaping MemoryError / RecursionError / SystemError, token_bytes requests above the item limit and a tracemalloc peak above a bound derived from the limits are violations. A fixed family nests IF / TRY / LOOP / IF_ELSE to depth 1200 and recurses through CALL / EVAL under call limits up to 2000.',
   note='Monitors abort the case at the first violation (a non-terminating loop is detected through the iteration bound, not waited for). Recursion headroom is pinned to 1000 frames. Vacuity guards require every limit class (item size, full stack, read past end, call, loop) to be hit.',
   design='3/C07')
CHECKS['C08'] = dict(
   technique='Hypothesis-generated cache-writing scripts x embedder caches executed on a recording dict (every mutation logged with key type); deep-copy comparison and consequence probes',
   text='Generated-input search with a step monitor. The cache handed to run_tape is a dict subclass that logs every __setitem__ / __delitem__ / pop / update / setdefault / clear / |= with its key; any mutation under a non-bytes key (other than the interpreter\'s control key "returned") at any step, in successful and failed runs, is a violation, as is any embedder entry that is missing or differs in value or type from a deep copy afterwards (also in the cache run_script returns), and any change in what GET_MESSAGE / CHECK_TIMESTAMP observe after the script. Scripts concentrate on the ~20 cache-writing paths with keys spelling the protected names in several encodings, nested in every construct, plus mutated byte soup.',
   note='No plugin or contract is installed (the property\'s precondition). Program key operands are biased to the keys of the drawn cache. The key "returned" is interpreter-owned and never supplied.',
   design='3/C08')
CHECKS['C01'] = dict(
   technique='Hypothesis-generated witness / lock lists; metamorphic sentinel oracle (FALSE VERIFY must be reached), differential against a hand composition through run_script / run_tape, totality',
   text='Generated-input search. Lists of 1-4 scripts: structured witnesses (RETURN at nesting depth 0-3 in every construct, DEFs incl. handles the lock calls, cache writes incl. the keys returned / E / P, junk, call-budget burning) with structured locks, real builder witness / lock pairs with an adversarial script before or between them, call-budget families around the limit, mutated byte soup; initial caches and limit triples drawn as well. Every case is judged by three oracles: a FALSE VERIFY sentinel appended / prepended to the last (and a middle) script must make the verdict False; the verdict must equal that of a hand composition of the scripts on one shared stack and cache through the public single-script API, in both directions; run_auth_scripts / run_auth_script never raise and Script objects behave like bytes.',
   note='The composition oracle reuses the implementation of single-script execution: only the sequencing across scripts (carry-over of stack, cache, definitions, cumulative call count, control residue) is independent. Sentinel locks contain RETURN only inside DEF bodies or pushed-and-evaluated scripts. Vacuity guard: >= 10 % of cases authorise.',
   design='3/C01')
CHECKS['C02'] = dict(
   technique='complete flag x allowed matrix + all presence subsets + Hypothesis corruption cases; oracle = reference message builder and pure-Python RFC 8032 (byte-exact for the deterministic signer)',
   text='Generated-input search with an independent cryptographic reference. Complete: the 256 x 256 flag x allowed-flags matrix for CHECK_SIG and CHECK_SIG_VERIFY (honest signature and a signature over a neighbouring flag\'s message in every cell, 64- and 65-byte forms for flag 0), and all 256 presence subsets x ten flags for GET_MESSAGE / SIGN / sign-then-check. Random: seeds, subsets, field contents incl. empty, flag / allowed pairs, the six instructions, malformed key / signature lengths and single-bit corruptions of key, signature, covered field, excluded field and flag byte. SIGN and SIGN_STACK must equal the RFC 8032 signature byte for byte; checks are true exactly for valid permitted signatures, errors for non-permitted flags and wrong lengths, unchanged by excluded / absent fields.',
   note='vt/ed25519_ref.py is the oracle for the sampled part; matrix signatures come from libsodium and are valid by construction. After a key or signature bit flip only "not true" is required (libsodium and RFC 8032 both reject, possibly for different reasons).',
   design='3/C02')
CHECKS['C03'] = dict(
   technique='Hypothesis multisets of signature items x key / signature orders (all orders for n <= 3) against a specification predicate on the generator\'s ground truth; bare instruction and builder path',
   text='Generated-input search with a specification-predicate oracle. n <= 5 distinct keys, m <= n (and m = n + 1), signature multisets mixing listed signers, outsiders, exact duplicates, same-signer flag variants, non-permitted flags, bit flips and wrong lengths. The verdict must be true exactly when all m items are well-formed, permitted and valid under pairwise different listed keys, never true otherwise (an error only when a malformed or non-permitted item exists), and identical for every order of keys and of signatures (all n!*m! orders enumerated for n, m <= 3, 24 drawn otherwise). The same multisets go through make_multisig_lock + concatenated make_single_sig_witness and run_auth_scripts.',
   note='Quorum 0 is vacuously true (recorded as a class). Keys are distinct, so greedy matching is exact. A tenth of the positive verdicts is re-verified with the RFC 8032 reference.',
   design='3/C03')
CHECKS['C17'] = dict(
   technique='Hypothesis seeds / messages / edge tweak scalars; every identity recomputed with the pure-Python Ed25519 reference; complete enumeration of all single-bit corruptions of the five check inputs per case; builder end-to-end',
   text='Generated-input search with an independent cryptographic reference. For each case (signer seed, message of 0-512 bytes, tweak material from eight classes incl. 1, L-1, L+1, 2^255-1 and unclamped bytes) the adapter made by the op must pass the adapter check; all 1024 single-bit corruptions of sa, R, T and X and all (or 200+ drawn) message bits must fail it; decryption with t must equal (R+T, sa+t mod L) computed by the reference and verify under strict RFC 8032 and under CHECK_SIG; t = s - sa; the adapter itself and a decryption with another scalar must not verify; t = 0 (mod L) is a clean error. Builder level: make_adapter_witness, make_adapter_locks_pub/_prv, make_adapter_decrypt, decrypt_adapter and the deprecated single-script locks, with wrong-scalar, undecrypted and foreign-key negatives. Two open known findings (OP_MAKE_ADAPTER_SIG_PRIVATE) are excluded by their specific signatures.',
   note='"Another scalar" means clamp(t\') mod L != t mod L. Strict verification (s < L) is what "valid signature" means here. The property does not state how the nonce is derived, so a nonce that ignores the message is not detected.',
   design='3/C17')
CHECKS['C04'] = dict(
   technique='complete enumeration of tree shapes <= 6 leaves and builder outputs 1..24 leaves + Hypothesis shapes to 8 leaves; recording-contract observation; reference Merkle verifier; data-level proof corruptions re-encoded as pure-push witnesses',
   text='Generated-input search with a reference model. Every leaf body starts by invoking a recording contract, so the set of leaf bodies that started is observable. Complete: all 65 binary shapes with 2-6 leaves x every leaf x three pre-witnesses (honest proof: exactly that leaf starts, verdict = the leaf\'s own verdict, pack/unpack keeps root and all unlocking scripts) and eight corruption kinds per leaf judged by a reference verifier (a proof that does not hash to the root must give False with an empty recorder; one that happens to stay valid must run exactly the leaf the reference names); all four builders for 1..24 leaves (i-th unlocking script runs input leaf i only, incl. next to filler leaves). Random: shapes of 2-8 leaves with generated leaf bodies.',
   note='Corruptions are applied to the proof data and re-encoded with well-formed pushes, so the recorder can be reached only through the lock (a witness may run anything as its own code; that is not what the property forbids). Leaf scripts stay below the item size limit.',
   design='3/C04')
CHECKS['C05'] = dict(
   technique='Hypothesis seeds / committed scripts / flags x 16 witness kinds; reference point arithmetic for the root; RFC 8032 reference for the key path; recording contract for the script path; differential native vs non-native lock',
   text='Generated-input search with reference models. The 32 bytes pushed by make_taproot_lock, make_nonnative_taproot_lock and make_graftap_lock must equal P + clamp(sha256(P || sha256(S)))*G computed with the pure-Python reference. Key path: the builder key-spend witness is a valid RFC 8032 signature under the root and authorises exactly when its flag is permitted; signatures by the untweaked key, another key, over other fields, bit-flipped, or against a bit-flipped root never do. Script path: the committed script (which starts by invoking a recording contract) starts exactly when (script, key) recomputes to the root; other script, other key, foreign pair, non-point, empty script, bit-flipped script and every tiny would-authorise script of length 1..48 give False with an empty recorder. Graftap key and script spends unlock; a surrogate signed by a foreign key does not. Native and non-native locks must agree on every case and on adversarial witnesses of the C01 family.',
   note='Negative script-path witnesses are pure pushes. Native vs non-native is compared at default stack limits for witnesses leaving a call budget >= 28 and a stack below 900 items.',
   design='3/C05')
CHECKS['C13'] = dict(
   technique='Hypothesis lock x witness pairs (matched, single-respect perturbations, cross pairings); reference acceptance predicate per lock kind over the typed stack the witness leaves, on top of the RFC 8032 reference; recording contract',
   text='Generated-input search with specification predicates. Locks: single-sig (both layouts), m-of-n multisig, script-hash (hash sizes 1..64), graftroot, graftap; witnesses: every sibling witness builder. About half of the pairs match (the builder witness must unlock: stated by the property itself), the others differ in one respect (other key, covered field changed, excluded field changed, non-permitted flag, other committed / surrogate script, surrogate signed by a foreign key - also with the rightful committed script and internal key for graftap) or pair different builders. The witness is a pure-push script, so it is reduced to the stack it leaves and a reference predicate per lock kind decides the expected verdict (cross pairings are evaluated, never assumed); a recording contract shows that a rejected witness ran no committed or surrogate script. Changes to excluded fields must not change the verdict.',
   note='Own verdicts of committed / surrogate scripts reuse the implementation of single-script execution. Truncated script hashes are evaluated by the predicate itself (collisions at 1 byte are legitimate matches).',
   design='3/C13')
CHECKS['C14'] = dict(
   technique='Hypothesis certificate chains (valid chain + at most one defect) with pinned clock; reference acceptance condition over the certificate data using the RFC 8032 reference; boundary enumeration for Certificate pack/unpack',
   text='Generated-input search with a specification predicate. Chains of 1-6 certificates with windows placed at t = begin, begin-1, end-1, end, end+1, slack at threshold-1 / threshold / threshold+1 for thresholds 0, 1, 60, 120, may-delegate patterns, and one of ten corruption kinds (bit flip anywhere in the 105 certificate bytes, wrong signer, swap, drop, cross-chain splice, final signature by a non-final delegate / the root / over other sigfields / with a non-permitted flag). The expected verdict is computed by a reference that walks the resulting certificate DATA: every link verified with the pure-Python Ed25519, every window and the slack evaluated, delegability of inner certificates, final signature. Both the single-certificate lock and the chain lock. Certificate.pack / unpack round trips are enumerated over 13 x 13 boundary timestamps x both booleans.',
   note='Clock pinned via functions.time; threshold via functions.flags (restored). At least 30 % of the cases authorise (vacuity guard).',
   design='3/C14')
CHECKS['C15'] = dict(
   technique='Hypothesis full cross product of five witness kinds x six lock kinds x signer x preimage class x boundary timestamps with pinned build and verification clocks; typed-stack acceptance predicate per lock kind on the RFC 8032 reference',
   text='Generated-input search with a specification predicate. Locks are built under a pinned clock so the deadline is known exactly; execution timestamps sit at deadline-1 / deadline / deadline+1 and far away, verifier clocks at threshold-1 / threshold / threshold+1 for thresholds 0, 1, 60, 120; preimages of 1-64 bytes, SHAKE digest sizes 1-64, tweak scalars from five classes. Every witness kind (htlc, htlc2, ptlc, ptlc with tweak, ptlc-refund) is paired with every lock kind and signed by receiver, refund key or an outsider with right / wrong / 1-byte preimages. The witness is a pure-push script: it is reduced to the stack it leaves and the claim / refund condition of the statement is evaluated on that stack (never on the witness name); where the property itself promises success (matching builder, right key, path condition holds) a rejection is a violation regardless of the reference.',
   note='Tweak scalars have bit 255 clear. Truncated digests are compared by the predicate itself. now = int(clock).',
   design='3/C15')
NOT_YET = {}
for i in range(1, 21):
    pid = 'C%02d' % i
    if pid not in CHECKS:
        NOT_YET[pid] = 'check designed in DESIGN.md section 3 but not implemented in this revision of /verif; not claimed until its code exists and has been rehearsed'

m = {
 'version': 1,
 'setup_cmd': "/venv/bin/python -c 'import hypothesis, nacl' || /venv/bin/pip install --no-index --find-links /opt/veriftools/wheels hypothesis",
 'hooks': {'guard': 'TAPESCRIPT_VERIF', 'enable': 'no source hooks: the harness rebinds module attributes (functions.Tape, parsing.Tape, functions.time, tools.time, functions.token_bytes) from outside; checks import tapescript from /repo working tree',
           'baseline_off_cmd': BASE, 'source_commits': [], 'add_only': True},
 'engines': [{'name': 'vt', 'path': 'vt/', 'serves_properties': sorted(CHECKS),
              'kind_free_text': 'Python harness: Hypothesis-driven and enumerated generators, reference models (assembler/disassembler, VM, RFC 8032 Ed25519), step monitors, collect-then-shrink runner'}],
 'checks': [], 'not_applicable': [],
 'notes': 'Every check: ./check <ID> [--tier quick|thorough] [--replay FILE]; VERIF_SEED honoured; exit 0/1/2 = held / violation / harness error. known_findings.json lists repaired (fixed) and open findings.',
}
for pid in sorted(CHECKS):
    c = CHECKS[pid]
    m['checks'].append({
      'property_id': pid, 'quick_cmd': './check %s --tier quick' % pid, 'thorough_cmd': './check %s --tier thorough' % pid,
      'evidence_file': '/verif/evidence/%s.json' % pid, 'replay_cmd_template': './check %s --replay {path}' % pid,
      'engine': 'vt', 'level_claimed': {'category': 'exploration', 'text': c['text'], 'design_ref': c['design']},
      'level_note': c['note'], 'technique': c['technique']})
for pid in sorted(NOT_YET):
    m['not_applicable'].append({'property_id': pid, 'reason': NOT_YET[pid]})
json.dump(m, open(os.path.join(V, 'MANIFEST.json'), 'w'), indent=1)
print('wrote MANIFEST.json: %d checks, %d not claimed' % (len(m['checks']), len(m['not_applicable'])))
