#!/opt/veriftools/pyvenv/bin/python
"""Development aid: validate MANIFEST.json and evidence/*.json against the schemas (python3-vt has jsonschema)."""
import json, sys, glob, os
import jsonschema
V = os.path.dirname(os.path.dirname(os.path.abspath(__file__)))
ms = json.load(open('/root/.vp/MANIFEST.schema.json')); es = json.load(open('/root/.vp/EVIDENCE.schema.json'))
m = json.load(open(os.path.join(V, 'MANIFEST.json')))
jsonschema.validate(m, ms)
props = [json.loads(l)['id'] for l in open(os.path.join(V, 'properties.jsonl'))]
claimed = [c['property_id'] for c in m['checks']]
na = [c['property_id'] for c in m.get('not_applicable', [])]
assert sorted(claimed + na) == sorted(props), (sorted(set(props) - set(claimed) - set(na)), 'unaccounted')
bad = 0
for c in m['checks']:
    f = os.path.join(V, c['evidence_file'].replace('/verif/', ''))
    if not os.path.exists(f):
        print('missing evidence', f); bad += 1; continue
    try:
        ev = json.load(open(f))
        jsonschema.validate(ev, es)
        assert ev['level'] == c['level_claimed']['category'], 'level mismatch'
    except Exception as e:
        print('INVALID', f, str(e)[:300]); bad += 1
print('manifest ok; %d checks, %d n/a, %d evidence problems' % (len(claimed), len(na), bad))
sys.exit(1 if bad else 0)
