#!/bin/sh
# tools/tryseed.sh <seeded dir name> <check ids...>: run quick checks against a stored seeded change in a scratch worktree
d=$1; shift
w=/tmp/ts-$$
git -C /repo worktree add -q --detach $w HEAD || exit 2
( cd $w && git apply /verif/seeded/$d/patch.diff ) || { git -C /repo worktree remove --force $w; echo "patch does not apply"; exit 2; }
for id in "$@"; do
  VERIF_REPO=$w VERIF_OUT=/tmp/ts-out-$$ /verif/check $id --no-shrink 2>&1 | grep -E "tier=|bucket|VIOLATION|HARNESS" | cut -c1-300 | head -8
done
git -C /repo worktree remove --force $w; rm -rf /tmp/ts-out-$$
