#!/usr/bin/env python3
"""tools/rebase_seeded.py <name> <new patch file>: a stored seeded change whose patch no longer applies to /repo HEAD was ported
by hand; confirm the port in a fresh worktree of HEAD (suite unchanged, demo 0 -> 1), run the owning check(s) against it, and
replace seeded/<name>/patch.diff (the original is kept as patch.orig.diff)."""
import json, os, shutil, subprocess, sys
V = os.path.dirname(os.path.dirname(os.path.abspath(__file__)))
name, newpatch = sys.argv[1], sys.argv[2]
d = os.path.join(V, 'seeded', name)
meta = json.load(open(os.path.join(d, 'meta.json')))
w = '/tmp/rbs-%d' % os.getpid()
subprocess.run(['git', '-C', '/repo', 'worktree', 'add', '-q', '--detach', w, 'HEAD'], check=True)
try:
    os.makedirs(os.path.join(w, 'seeded'))
    shutil.copy(os.path.join(d, 'demo.py'), os.path.join(w, 'seeded', 'demo.py'))
    def pytest_tail():
        r = subprocess.run(['/venv/bin/python', '-m', 'pytest', '-q', '-p', 'no:cacheprovider'], cwd=w, capture_output=True, text=True)
        return (r.stdout.strip().splitlines() or [''])[-1]
    def demo():
        return subprocess.run(['/venv/bin/python', 'seeded/demo.py'], cwd=w, capture_output=True, text=True, timeout=600).returncode
    t0, d0 = pytest_tail(), demo()
    subprocess.run(['git', 'apply', os.path.abspath(newpatch)], cwd=w, check=True)
    t1, d1 = pytest_tail(), demo()
    ok = ('3 failed' in t0 and '267 passed' in t0 and '3 failed' in t1 and '267 passed' in t1 and d0 == 0 and d1 == 1)
    print('confirm:', t0, '|', t1, '| demo', d0, '->', d1, '|', 'CONFIRMED' if ok else 'NOT CONFIRMED')
    res = {}
    for cid in (meta.get('caught_by') or [meta['property']]):
        env = dict(os.environ, VERIF_REPO=w, VERIF_OUT=w + '-out', VERIF_SEED='1')
        r = subprocess.run([os.path.join(V, 'check'), cid, '--tier', 'quick', '--no-shrink'], env=env, capture_output=True, text=True)
        b = [l.strip()[:200] for l in r.stdout.splitlines() if l.startswith('  bucket')][:2]
        res[cid] = {'exit': r.returncode, 'buckets': b}
        print(cid, 'exit', r.returncode, 'CAUGHT' if r.returncode == 1 else 'MISSED', b[:1])
    if ok:
        if not os.path.exists(os.path.join(d, 'patch.orig.diff')):
            shutil.copy(os.path.join(d, 'patch.diff'), os.path.join(d, 'patch.orig.diff'))
        shutil.copy(newpatch, os.path.join(d, 'patch.diff'))
        head = subprocess.run(['git', '-C', '/repo', 'log', '--format=%h', '-1'], capture_output=True, text=True).stdout.strip()
        meta['rebased'] = {'onto': head, 'note': 'patch.diff ported to this commit of /repo (fix commits had touched the same lines); patch.orig.diff is the '
                           'change as delivered', 'pytest_patched': t1, 'demo_exit_clean': d0, 'demo_exit_patched': d1, 'check_results': res}
        json.dump(meta, open(os.path.join(d, 'meta.json'), 'w'), indent=1)
finally:
    subprocess.run(['git', '-C', '/repo', 'worktree', 'remove', '--force', w])
    shutil.rmtree(w + '-out', ignore_errors=True)
