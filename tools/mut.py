#!/usr/bin/env python3
"""Sensitivity testing aid: tools/mut.py <ID> <relative file> <old> <new> [--tier T] [--tasks a,b]
Copies /repo to a scratch dir, replaces <old> by <new> (must occur exactly once unless --all), runs the check against
the copy (VERIF_REPO), prints the outcome, removes the copy.  Also accepts --patch FILE instead of file/old/new."""
import sys, os, shutil, subprocess, tempfile, argparse
ap = argparse.ArgumentParser()
ap.add_argument('pid'); ap.add_argument('file', nargs='?'); ap.add_argument('old', nargs='?'); ap.add_argument('new', nargs='?')
ap.add_argument('--patch'); ap.add_argument('--tier', default='quick'); ap.add_argument('--tasks'); ap.add_argument('--all', action='store_true')
ap.add_argument('--seed', default='1'); ap.add_argument('--keep-going', action='store_true')
a = ap.parse_args()
V = os.path.dirname(os.path.dirname(os.path.abspath(__file__)))
d = tempfile.mkdtemp(prefix='vt-mut-')
try:
    subprocess.run(['git', '-C', '/repo', 'worktree', 'list'], capture_output=True)
    for item in ('tapescript', 'docs.md', 'language_spec.md', 'tests'):
        src = os.path.join('/repo', item)
        if os.path.isdir(src):
            shutil.copytree(src, os.path.join(d, item), ignore=shutil.ignore_patterns('__pycache__'))
        else:
            shutil.copy(src, d)
    if a.patch:
        r = subprocess.run(['patch', '-p1', '-d', d, '-i', os.path.abspath(a.patch)], capture_output=True, text=True)
        if r.returncode:
            print('PATCH FAILED', r.stdout, r.stderr); sys.exit(3)
    else:
        p = os.path.join(d, a.file)
        s = open(p).read()
        n = s.count(a.old)
        if n == 0 or (n != 1 and not a.all):
            print('MUTATION SITE COUNT', n); sys.exit(3)
        open(p, 'w').write(s.replace(a.old, a.new))
    env = dict(os.environ, VERIF_REPO=d, VERIF_OUT=os.path.join(d, 'out'), VERIF_SEED=a.seed)
    cmd = [os.path.join(V, 'check'), a.pid, '--tier', a.tier, '--no-shrink']
    if a.tasks:
        cmd += ['--tasks', a.tasks]
    r = subprocess.run(cmd, env=env, capture_output=True, text=True)
    lines = [l[:260] for l in r.stdout.splitlines() if l.startswith(('  bucket', 'VIOLATION', 'HARNESS', 'KNOWN', a.pid))]
    print('exit', r.returncode, '|', 'CAUGHT' if r.returncode == 1 else ('MISSED' if r.returncode == 0 else 'HARNESS-ERROR'))
    for l in lines[:12]:
        print('   ', l)
    if r.returncode == 2:
        print(r.stdout[-1500:], r.stderr[-1500:])
finally:
    shutil.rmtree(d, ignore_errors=True)
