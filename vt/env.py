"""Harness-side environment: import tapescript from the tree under test, pin
clock and randomness, snapshot / restore the process-global registries."""
from __future__ import annotations
import hashlib
import os
import subprocess
import sys
import warnings

REPO = os.environ.get('VERIF_REPO') or '/repo'
if sys.path[0] != REPO:
    sys.path.insert(0, REPO)
warnings.simplefilter('ignore', DeprecationWarning)

import tapescript  # noqa: E402
from tapescript import functions as F, parsing as P, tools as T, classes as C, errors as E  # noqa: E402
import importlib  # noqa: E402
A = importlib.import_module('tapescript.AMHL')

assert os.path.realpath(os.path.dirname(os.path.dirname(tapescript.__file__))) == os.path.realpath(REPO), \
    'tapescript imported from %s, expected %s' % (tapescript.__file__, REPO)

SEE = E.ScriptExecutionError
TSyntaxError = E.SyntaxError

_ORIG_TIME_F = F.time
_ORIG_TIME_T = T.time
_ORIG_TOKEN = F.token_bytes


def pin_clock(now):
    """Pin the verifier clock.  `now` is an int or float (non-negative)."""
    if isinstance(now, int) and now > 2 ** 52:
        fn = lambda: now  # noqa: E731  int-returning: a double cannot hold it
    else:
        fn = lambda: now  # noqa: E731
    F.time = fn
    T.time = fn


def unpin_clock():
    F.time = _ORIG_TIME_F
    T.time = _ORIG_TIME_T


class DetRandom:
    """Deterministic replacement for secrets.token_bytes."""

    def __init__(self, seed=b'vt'):
        self.seed = seed if isinstance(seed, bytes) else repr(seed).encode()
        self.ctr = 0
        self.calls = []

    def __call__(self, n=32):
        if not isinstance(n, int) or isinstance(n, bool):
            raise TypeError('an integer is required')
        if n < 0:
            raise ValueError('negative argument not allowed')
        self.calls.append(n)
        out = hashlib.shake_256(self.seed + self.ctr.to_bytes(8, 'big')).digest(n)
        self.ctr += 1
        return out


def pin_random(seed=b'vt'):
    r = DetRandom(seed)
    F.token_bytes = r
    if hasattr(A, 'token_bytes'):
        A.token_bytes = r
    return r


def unpin_random():
    F.token_bytes = _ORIG_TOKEN
    if hasattr(A, 'token_bytes'):
        A.token_bytes = _ORIG_TOKEN
    if hasattr(T, 'token_bytes'):
        pass


_REG_NAMES = ('opcodes', 'opcodes_inverse', 'nopcodes', 'nopcodes_inverse',
              'opcode_aliases', '_contracts', '_contract_interfaces', 'flags')


def snapshot_registries():
    snap = {n: dict(getattr(F, n)) for n in _REG_NAMES}
    snap['_plugins'] = {k: list(v) for k, v in F._plugins.items()}
    snap['flags_to_set'] = list(F.flags_to_set)
    snap['additional_opcodes'] = dict(P.additional_opcodes)
    return snap


def restore_registries(snap):
    """In place: `parsing` holds references to the same dict objects."""
    for n in _REG_NAMES:
        d = getattr(F, n)
        d.clear()
        d.update(snap[n])
    F._plugins.clear()
    F._plugins.update({k: list(v) for k, v in snap['_plugins'].items()})
    F.flags_to_set[:] = snap['flags_to_set']
    P.additional_opcodes.clear()
    P.additional_opcodes.update(snap['additional_opcodes'])


PRISTINE = snapshot_registries()


def repo_commit():
    try:
        h = subprocess.run(['git', '-C', REPO, 'rev-parse', '--short', 'HEAD'], capture_output=True,
                           text=True, timeout=10).stdout.strip()
        d = subprocess.run(['git', '-C', REPO, 'status', '--porcelain', '--untracked-files=no'],
                           capture_output=True, text=True, timeout=10).stdout.strip()
        return h, bool(d)
    except Exception:
        return 'unknown', False
