"""Small shared helpers: canonical serialisation, digests, generic shrinker,
recursion headroom."""
from __future__ import annotations
import hashlib
import json
import sys


# ---------------------------------------------------------------- serialise
def to_jsonable(o):
    if isinstance(o, (bytes, bytearray)):
        return {'__b': bytes(o).hex()}
    if isinstance(o, dict):
        out = {}
        for k, v in o.items():
            if isinstance(k, (bytes, bytearray)):
                k = 'b:' + bytes(k).hex()
            elif isinstance(k, int) and not isinstance(k, bool):
                k = 'i:%d' % k
            elif isinstance(k, str):
                k = 's:' + k
            else:
                k = 'r:' + repr(k)
            out[k] = to_jsonable(v)
        order = list(out)
        if order != sorted(order):
            return {'__d': out, '__o': order}      # insertion order matters to some properties (C02)
        return {'__d': out}
    if isinstance(o, tuple):
        return {'__t': [to_jsonable(x) for x in o]}
    if isinstance(o, (list,)):
        return [to_jsonable(x) for x in o]
    if isinstance(o, float):
        if o != o or o in (float('inf'), float('-inf')):
            return {'__f': repr(o)}
        return o
    if isinstance(o, int) and not isinstance(o, bool) and abs(o) >= 2 ** 53:
        return {'__i': hex(o)}
    if o is None or isinstance(o, (bool, int, str)):
        return o
    return {'__r': repr(o)}


def from_jsonable(o):
    if isinstance(o, list):
        return [from_jsonable(x) for x in o]
    if isinstance(o, dict):
        if '__b' in o:
            return bytes.fromhex(o['__b'])
        if '__t' in o:
            return tuple(from_jsonable(x) for x in o['__t'])
        if '__f' in o:
            return float(o['__f'])
        if '__i' in o:
            return int(o['__i'], 16) if 'x' in o['__i'] else int(o['__i'])
        if '__r' in o:
            return o['__r']
        if '__d' in o:
            out = {}
            items = o['__d'].items() if '__o' not in o else [(k, o['__d'][k]) for k in o['__o']]
            for k, v in items:
                tag, rest = k[:2], k[2:]
                if tag == 'b:':
                    k2 = bytes.fromhex(rest)
                elif tag == 'i:':
                    k2 = int(rest)
                elif tag == 's:':
                    k2 = rest
                else:
                    k2 = rest
                out[k2] = from_jsonable(v)
            return out
        return {k: from_jsonable(v) for k, v in o.items()}
    return o


def canon(o) -> str:
    return json.dumps(to_jsonable(o), sort_keys=True, separators=(',', ':'))


def digest(o) -> bytes:
    """8-byte digest of the canonical serialisation (distinctness counting)."""
    if isinstance(o, (bytes, bytearray)):
        return hashlib.sha256(bytes(o)).digest()[:8]
    return hashlib.sha256(canon(o).encode()).digest()[:8]


def short(o, limit=400):
    """Human-readable abbreviated rendering for samples."""
    j = to_jsonable(o)

    def ab(x):
        if isinstance(x, dict):
            if '__b' in x and len(x) == 1:
                h = x['__b']
                return 'x' + (h if len(h) <= 96 else h[:64] + '..(%dB)' % (len(h) // 2))
            if '__d' in x and len(x) <= 2:
                return {(k[2:] if k[:2] == 's:' else k): ab(v) for k, v in x['__d'].items()}
            if '__t' in x and len(x) == 1:
                return [ab(v) for v in x['__t']]
            return {k: ab(v) for k, v in x.items()}
        if isinstance(x, list):
            if len(x) > 24:
                return [ab(v) for v in x[:24]] + ['..(%d items)' % len(x)]
            return [ab(v) for v in x]
        if isinstance(x, str) and len(x) > limit:
            return x[:limit] + '..(%d chars)' % len(x)
        return x
    return ab(j)


# ---------------------------------------------------------------- recursion
def frame_depth() -> int:
    f = sys._getframe()
    d = 0
    while f is not None:
        d += 1
        f = f.f_back
    return d


class headroom:
    """Run the body with exactly `n` frames of recursion headroom (the
    headroom an embedder with CPython's default limit has), regardless of
    whether Hypothesis raised the limit."""

    def __init__(self, n=1000):
        self.n = n

    def __enter__(self):
        self.old = sys.getrecursionlimit()
        sys.setrecursionlimit(frame_depth() + self.n)
        return self

    def __exit__(self, *a):
        sys.setrecursionlimit(self.old)
        return False


# ---------------------------------------------------------------- shrinking
class _Budget:
    def __init__(self, n):
        self.n = n


def _candidates(v):
    """Yield simpler variants of a leaf / container value (one step)."""
    if isinstance(v, (bytes, bytearray)):
        v = bytes(v)
        n = len(v)
        if n:
            yield b''
            if n > 1:
                yield v[:n // 2]
                yield v[n // 2:]
                yield v[:-1]
                yield v[1:]
            if n <= 40:
                for i in range(n):
                    yield v[:i] + v[i + 1:]
            if any(v):
                yield bytes(n)
                if n <= 40:
                    for i in range(n):
                        if v[i]:
                            yield v[:i] + b'\x00' + v[i + 1:]
    elif isinstance(v, bool):
        if v:
            yield False
    elif isinstance(v, int):
        if v:
            yield 0
            if abs(v) > 1:
                yield 1 if v > 0 else -1
                yield v // 2 if v > 0 else -((-v) // 2)
                yield v - 1 if v > 0 else v + 1
    elif isinstance(v, list):
        n = len(v)
        if n:
            if n > 3:
                yield v[:n // 2]
                yield v[n // 2:]
            for i in reversed(range(n)):
                yield v[:i] + v[i + 1:]
            # hoist children of a nested list element
            for i in range(n):
                if isinstance(v[i], list):
                    for ch in v[i]:
                        if isinstance(ch, list) and ch and isinstance(ch[0], list):
                            yield v[:i] + ch + v[i + 1:]
    elif isinstance(v, str):
        if len(v) > 1:
            yield v[:len(v) // 2]
            yield v[:-1]


def _size(v):
    return len(canon(v))


def shrink(case, still_fails, budget=400, frozen=('check',)):
    """Greedy structural minimisation.  `still_fails(candidate) -> bool` must
    be robust against malformed candidates (return False)."""
    b = _Budget(budget)
    best = case

    def paths(v, pre=()):
        yield pre
        if isinstance(v, dict):
            for k in v:
                if not pre and k in frozen:
                    continue
                yield from paths(v[k], pre + (k,))
        elif isinstance(v, (list, tuple)):
            for i in range(len(v)):
                yield from paths(v[i], pre + (i,))

    def get(v, p):
        for k in p:
            v = v[k]
        return v

    def put(v, p, new):
        if not p:
            return new
        k = p[0]
        if isinstance(v, dict):
            c = dict(v)
            c[k] = put(v[k], p[1:], new)
            return c
        if isinstance(v, tuple):
            c = list(v)
            c[k] = put(v[k], p[1:], new)
            return tuple(c)
        c = list(v)
        c[k] = put(v[k], p[1:], new)
        return c

    improved = True
    while improved and b.n > 0:
        improved = False
        for p in list(paths(best)):
            if b.n <= 0:
                break
            try:
                cur = get(best, p)
            except (KeyError, IndexError, TypeError):
                continue
            if isinstance(cur, (dict, tuple)):
                continue
            for cand in _candidates(cur):
                if b.n <= 0:
                    break
                trial = put(best, p, cand)
                if _size(trial) >= _size(best) and not isinstance(cur, int):
                    continue
                b.n -= 1
                ok = False
                try:
                    ok = bool(still_fails(trial))
                except Exception:
                    ok = False
                if ok:
                    best = trial
                    improved = True
                    break
            if improved:
                break
    return best
