"""Outputs of every lock / witness builder for given key material (used as a
corpus of "bytecode produced by the builders")."""
from __future__ import annotations
import hashlib
from . import env
T = env.T
from nacl.signing import SigningKey


def seeds(tag: bytes, n=4):
    return [hashlib.sha256(tag + bytes([i])).digest() for i in range(n)]


def builder_outputs(tag=b'vt', sigflags='00', n_leaves=3):
    sd = seeds(tag)
    pk = [bytes(SigningKey(s).verify_key) for s in sd]
    sf = {'sigfield1': b'abc' + tag, 'sigfield3': b'xyz'}
    S = T.Script.from_src('push x07 equal')
    pre = hashlib.sha256(tag).digest()[:20]
    outs = {
        'single_lock': T.make_single_sig_lock(pk[0], sigflags),
        'single_lock2': T.make_single_sig_lock2(pk[0], sigflags),
        'single_wit': T.make_single_sig_witness(sd[0], sf, sigflags),
        'single_wit2': T.make_single_sig_witness2(sd[0], sf, sigflags),
        'multisig': T.make_multisig_lock(pk, 3, sigflags),
        'sh_lock': T.make_scripthash_lock(S),
        'sh_wit': T.make_scripthash_witness(S),
        'ad_lock_pub': T.make_adapter_lock_pub(pk[0], pk[1], sigflags),
        'ad_lock_prv': T.make_adapter_lock_prv(pk[0], sd[1], sigflags),
        'ad_locks_prv0': T.make_adapter_locks_prv(pk[0], sd[1], sigflags)[0],
        'ad_locks_prv1': T.make_adapter_locks_prv(pk[0], sd[1], sigflags)[1],
        'ad_dec': T.make_adapter_decrypt(sd[1]),
        'ad_wit': T.make_adapter_witness(sd[0], pk[1], sf, sigflags),
        'dk_lock': T.make_delegate_key_lock(pk[0], sigflags),
        'dkc_lock': T.make_delegate_key_chain_lock(pk[0], sigflags),
        'dk_wit': T.make_delegate_key_witness(sd[1], T.make_delegate_key_cert(sd[0], pk[1], 10, 2 ** 31 - 1), sf, sigflags),
        'dkc_wit': T.make_delegate_key_chain_witness(
            sd[2], [T.make_delegate_key_cert(sd[1], pk[2], 10, 20), T.make_delegate_key_cert(sd[0], pk[1], 10, 20)], sf, sigflags),
        'gr_lock': T.make_graftroot_lock(pk[0], sigflags),
        'gr_key': T.make_graftroot_witness_keyspend(sd[0], sf, sigflags),
        'gr_sur': T.make_graftroot_witness_surrogate(sd[0], S),
        'htlc': T.make_htlc_sha256_lock(pk[0], pk[1], preimage=pre, sigflags=sigflags),
        'htlc_sk': T.make_htlc_shake256_lock(pk[0], pk[1], preimage=pre, sigflags=sigflags),
        'htlc2': T.make_htlc2_sha256_lock(pk[0], pk[1], preimage=pre, sigflags=sigflags),
        'htlc2_sk': T.make_htlc2_shake256_lock(pk[0], pk[1], preimage=pre, sigflags=sigflags),
        'htlc_wit': T.make_htlc_witness(sd[0], pre, sf, sigflags),
        'htlc2_wit': T.make_htlc2_witness(sd[0], pre, sf, sigflags),
        'ptlc': T.make_ptlc_lock(pk[0], pk[1], sigflags=sigflags),
        'ptlc_wit': T.make_ptlc_witness(sd[0], sf, sigflags=sigflags),
        'ptlc_ref': T.make_ptlc_refund_witness(sd[1], sf, sigflags),
        'tr': T.make_taproot_lock(pk[0], S, sigflags=sigflags),
        'tr_key': T.make_taproot_witness_keyspend(sd[0], sf, S, sigflags=sigflags),
        'tr_scr': T.make_taproot_witness_scriptspend(pk[0], S),
        'ntr': T.make_nonnative_taproot_lock(pk[0], S, sigflags=sigflags),
        'gt': T.make_graftap_lock(pk[0], sigflags),
        'gt_key': T.make_graftap_witness_keyspend(sd[0], sf, sigflags),
        'gt_scr': T.make_graftap_witness_scriptspend(sd[0], S),
        'ts_after': T.make_timestamp_after_lock(1700000000 + tag[0]),
        'ts_before': T.make_timestamp_before_lock(1700000000 + tag[0], True),
        'ts_btw': T.make_timestamp_between_lock(5, 1700000000 + tag[0]),
    }
    leaves = ['true', 'false', 'push d1', 'push x0102 pop0 true', 'push s"abc" sha256 pop0 true'][:max(1, n_leaves)]
    lock, unl = T.make_merklized_script_balanced(leaves)
    outs['mkb_lock'] = lock
    for i, u in enumerate(unl):
        outs['mkb_unl%d' % i] = u
    lock, unl = T.make_merklized_script_prioritized(leaves)
    outs['mkp_lock'] = lock
    for i, u in enumerate(unl):
        outs['mkp_unl%d' % i] = u
    return {k: bytes(v) for k, v in outs.items()}
