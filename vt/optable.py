"""Documented opcode table, parsed from docs.md (not from functions.opcodes),
plus a hand-written operand-shape table taken from language_spec.md / docs.md."""
from __future__ import annotations
import os
import re

REPO = os.environ.get('VERIF_REPO') or '/repo'

NAMES = {}      # code -> 'OP_X'
CODES = {}      # 'OP_X' -> code
ALIASES = {}    # 'OP_X' -> [aliases...]


def _load():
    cur = None
    in_alias = False
    with open(os.path.join(REPO, 'docs.md')) as f:
        for line in f:
            m = re.match(r'^## (OP_[A-Z0-9_]+) - (\d+) - x([0-9A-Fa-f]{2})\s*$', line)
            if m:
                name, n, hx = m.group(1), int(m.group(2)), int(m.group(3), 16)
                assert n == hx, line
                NAMES[n] = name
                CODES[name] = n
                ALIASES[name] = []
                cur = name
                in_alias = False
                continue
            if line.startswith('## ') or line.startswith('# '):
                cur = None
                in_alias = False
                continue
            if cur and line.strip() == 'Aliases:':
                in_alias = True
                continue
            if cur and in_alias:
                m = re.match(r'^- ([A-Z0-9_]+)\s*$', line)
                if m:
                    ALIASES[cur].append(m.group(1))
                elif line.strip():
                    in_alias = False


_load()
assert len(NAMES) == 92 and sorted(NAMES) == list(range(92)), len(NAMES)
N_OPS = 92
NOP_CODES = list(range(N_OPS, 256))

# operand shapes
#  'none'   no tape operand
#  'u8'     one byte
#  'lv1'    [len:1][bytes]
#  'lv2'    [len:2][bytes]
#  'wc'     [len:1][key][count:1]
#  'f4'     4 bytes
#  'u8u8'   two bytes
#  'u8x3'   three bytes
#  'h32'    32 bytes
#  'def'    [handle:1][len:2][body]
#  'blk'    [len:2][body]
#  'blk2'   [len:2][body][len:2][body]
SHAPE = {}
for _n in ('OP_FALSE OP_TRUE OP_POP0 OP_SIZE OP_READ_CACHE_STACK OP_READ_CACHE_STACK_SIZE OP_DIV_INTS '
           'OP_MOD_INTS OP_DIV_FLOATS OP_MOD_FLOATS OP_DUP OP_SHA256 OP_VERIFY OP_EQUAL OP_EQUAL_VERIFY '
           'OP_CHECK_TIMESTAMP OP_CHECK_TIMESTAMP_VERIFY OP_CHECK_EPOCH OP_CHECK_EPOCH_VERIFY OP_EVAL '
           'OP_RANDOM OP_NOT OP_RETURN OP_DEPTH OP_SWAP2 OP_CONCAT OP_CONCAT_STR OP_CHECK_TRANSFER OP_LESS '
           'OP_LESS_OR_EQUAL OP_FLOAT_LESS OP_FLOAT_LESS_OR_EQUAL OP_INT_TO_FLOAT OP_FLOAT_TO_INT '
           'OP_SIGN_STACK OP_CHECK_SIG_STACK OP_DERIVE_SCALAR OP_DERIVE_POINT OP_MAKE_ADAPTER_SIG_PUBLIC '
           'OP_MAKE_ADAPTER_SIG_PRIVATE OP_CHECK_ADAPTER_SIG OP_DECRYPT_ADAPTER_SIG OP_INVOKE OP_SPLIT '
           'OP_SPLIT_STR OP_XOR OP_OR OP_AND').split():
    SHAPE[_n] = 'none'
for _n in ('OP_PUSH0 OP_POP1 OP_ADD_INTS OP_SUBTRACT_INTS OP_MULT_INTS OP_ADD_FLOATS OP_SUBTRACT_FLOATS '
           'OP_ADD_POINTS OP_CALL OP_COPY OP_SHAKE256 OP_REVERSE OP_CHECK_SIG OP_SIGN OP_TAPROOT '
           'OP_CHECK_SIG_VERIFY OP_CLAMP_SCALAR OP_ADD_SCALARS OP_SUBTRACT_SCALARS OP_SUBTRACT_POINTS '
           'OP_GET_MESSAGE OP_CHECK_TEMPLATE OP_CHECK_TEMPLATE_VERIFY').split():
    SHAPE[_n] = 'u8'
for _n in 'OP_PUSH1 OP_READ_CACHE OP_READ_CACHE_SIZE OP_DIV_INT OP_MOD_INT OP_SET_FLAG OP_UNSET_FLAG OP_GET_VALUE'.split():
    SHAPE[_n] = 'lv1'
SHAPE['OP_PUSH2'] = 'lv2'
SHAPE['OP_WRITE_CACHE'] = 'wc'
SHAPE['OP_DIV_FLOAT'] = 'f4'
SHAPE['OP_MOD_FLOAT'] = 'f4'
SHAPE['OP_SWAP'] = 'u8u8'
SHAPE['OP_CHECK_MULTISIG'] = 'u8x3'
SHAPE['OP_CHECK_MULTISIG_VERIFY'] = 'u8x3'
SHAPE['OP_MERKLEVAL'] = 'h32'
SHAPE['OP_DEF'] = 'def'
SHAPE['OP_IF'] = 'blk'
SHAPE['OP_LOOP'] = 'blk'
SHAPE['OP_IF_ELSE'] = 'blk2'
SHAPE['OP_TRY_EXCEPT'] = 'blk2'
assert set(SHAPE) == set(CODES), set(CODES) ^ set(SHAPE)

# ops whose single byte operand the decompiler prints as hex (flags) vs signed decimal (counts)
U8_HEX = {'OP_CHECK_SIG', 'OP_CHECK_SIG_VERIFY', 'OP_SIGN', 'OP_TAPROOT', 'OP_GET_MESSAGE',
          'OP_CHECK_TEMPLATE', 'OP_CHECK_TEMPLATE_VERIFY'}


def shape_of(code):
    if code >= N_OPS:
        return 'u8'
    return SHAPE[NAMES[code]]


def name_of(code):
    return NAMES[code] if code < N_OPS else 'NOP%d' % code
