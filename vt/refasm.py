"""Reference assembler / disassembler / listing parser / source renderer,
written from the documented encodings (docs.md, language_spec.md).

Abstract programs are JSON-friendly nested lists:
  ['i', code]                      no operand
  ['i', code, n]                   one byte operand (0..255)              (u8, NOP)
  ['i', code, bytes]               length-prefixed value                  (lv1, lv2), f4, h32
  ['i', code, key, count]          WRITE_CACHE
  ['i', code, a, b] / [.., a,b,c]  SWAP / CHECK_MULTISIG
  ['def', handle, body] ['if', body] ['ife', a, b] ['try', a, b] ['loop', body]
"""
from __future__ import annotations
from . import optable as O

C = O.CODES


class NotEncodable(Exception):
    pass


class DecodeError(Exception):
    pass


def _u8(n):
    if not isinstance(n, int) or not 0 <= n <= 255:
        raise NotEncodable('u8 %r' % (n,))
    return bytes([n])


def _blk(body):
    b = encode(body)
    if len(b) > 0xffff:
        raise NotEncodable('block too long')
    return len(b).to_bytes(2, 'big') + b


def encode_node(node) -> bytes:
    k = node[0]
    if k == 'i':
        code = node[1]
        if not isinstance(code, int) or not 0 <= code <= 255:
            raise NotEncodable('code')
        sh = O.shape_of(code)
        if sh in ('def', 'blk', 'blk2'):
            raise NotEncodable('block op as plain instruction')
        out = bytes([code])
        ops = node[2:]
        if sh == 'none':
            if ops:
                raise NotEncodable('operands for none')
            return out
        if sh == 'u8':
            (n,) = ops
            return out + _u8(n)
        if sh == 'lv1':
            (v,) = ops
            if len(v) > 255:
                raise NotEncodable('lv1 too long')
            return out + bytes([len(v)]) + v
        if sh == 'lv2':
            (v,) = ops
            if len(v) > 0xffff:
                raise NotEncodable('lv2 too long')
            return out + len(v).to_bytes(2, 'big') + v
        if sh == 'wc':
            key, cnt = ops
            if len(key) > 255:
                raise NotEncodable('key too long')
            return out + bytes([len(key)]) + key + _u8(cnt)
        if sh == 'f4':
            (v,) = ops
            if len(v) != 4:
                raise NotEncodable('f4')
            return out + v
        if sh == 'u8u8':
            a, b = ops
            return out + _u8(a) + _u8(b)
        if sh == 'u8x3':
            a, b, c = ops
            return out + _u8(a) + _u8(b) + _u8(c)
        if sh == 'h32':
            (v,) = ops
            if len(v) != 32:
                raise NotEncodable('h32')
            return out + v
        raise NotEncodable(sh)
    if k == 'def':
        return bytes([C['OP_DEF']]) + _u8(node[1]) + _blk(node[2])
    if k == 'if':
        return bytes([C['OP_IF']]) + _blk(node[1])
    if k == 'ife':
        return bytes([C['OP_IF_ELSE']]) + _blk(node[1]) + _blk(node[2])
    if k == 'try':
        return bytes([C['OP_TRY_EXCEPT']]) + _blk(node[1]) + _blk(node[2])
    if k == 'loop':
        return bytes([C['OP_LOOP']]) + _blk(node[1])
    raise NotEncodable('node kind %r' % (k,))


def encode(prog) -> bytes:
    if not isinstance(prog, list):
        raise NotEncodable('program must be a list')
    return b''.join(encode_node(n) for n in prog)


def push(v: bytes):
    """PUSH picks the smallest push instruction that fits."""
    if len(v) == 1:
        return ['i', C['OP_PUSH0'], v[0]]
    if len(v) < 256:
        return ['i', C['OP_PUSH1'], v]
    if len(v) < 65536:
        return ['i', C['OP_PUSH2'], v]
    raise NotEncodable('push too long')


# ------------------------------------------------------------- disassembler
class _R:
    def __init__(self, b):
        self.b, self.p = b, 0

    def take(self, n):
        if self.p + n > len(self.b):
            raise DecodeError('truncated operand at %d (+%d)' % (self.p, n))
        v = self.b[self.p:self.p + n]
        self.p += n
        return v


def decode(b: bytes, depth=0):
    if depth > 200:
        raise DecodeError('nesting too deep')
    r = _R(b)
    out = []
    while r.p < len(b):
        code = r.take(1)[0]
        sh = O.shape_of(code)
        if sh == 'none':
            out.append(['i', code])
        elif sh == 'u8':
            out.append(['i', code, r.take(1)[0]])
        elif sh == 'lv1':
            n = r.take(1)[0]
            out.append(['i', code, r.take(n)])
        elif sh == 'lv2':
            n = int.from_bytes(r.take(2), 'big')
            out.append(['i', code, r.take(n)])
        elif sh == 'wc':
            n = r.take(1)[0]
            key = r.take(n)
            out.append(['i', code, key, r.take(1)[0]])
        elif sh == 'f4':
            out.append(['i', code, r.take(4)])
        elif sh == 'u8u8':
            out.append(['i', code, r.take(1)[0], r.take(1)[0]])
        elif sh == 'u8x3':
            out.append(['i', code, r.take(1)[0], r.take(1)[0], r.take(1)[0]])
        elif sh == 'h32':
            out.append(['i', code, r.take(32)])
        elif sh == 'def':
            h = r.take(1)[0]
            n = int.from_bytes(r.take(2), 'big')
            out.append(['def', h, decode(r.take(n), depth + 1)])
        elif sh == 'blk':
            n = int.from_bytes(r.take(2), 'big')
            out.append(['if' if code == C['OP_IF'] else 'loop', decode(r.take(n), depth + 1)])
        elif sh == 'blk2':
            n = int.from_bytes(r.take(2), 'big')
            a = decode(r.take(n), depth + 1)
            n = int.from_bytes(r.take(2), 'big')
            bb = decode(r.take(n), depth + 1)
            out.append(['ife' if code == C['OP_IF_ELSE'] else 'try', a, bb])
        else:
            raise DecodeError(sh)
    return out


def count_nodes(prog):
    n = 0
    for node in prog:
        n += 1
        for x in node[1:]:
            if isinstance(x, list):
                n += count_nodes(x)
    return n


def max_depth(prog):
    d = 0
    for node in prog:
        for x in node[1:]:
            if isinstance(x, list):
                d = max(d, 1 + max_depth(x))
    return d


# ------------------------------------------------------------- listing parser
class ListingError(Exception):
    pass


def _min_signed(n: int) -> bytes:
    """Minimal big-endian two's complement (reference; independent of log2)."""
    ln = 1
    while True:
        try:
            return n.to_bytes(ln, 'big', signed=True)
        except OverflowError:
            ln += 1


def _val(tok):
    """Value token of a listing -> bytes."""
    if tok[:1] == 'x':
        try:
            return bytes.fromhex(tok[1:])
        except ValueError:
            raise ListingError('bad hex ' + tok)
    if tok[:1] == 'd':
        try:
            return _min_signed(int(tok[1:]))
        except ValueError:
            raise ListingError('bad dec ' + tok)
    raise ListingError('bad value token ' + tok)


def _byte(tok):
    if tok[:1] == 'x':
        v = _val(tok)
        if len(v) != 1:
            raise ListingError('byte operand of wrong length ' + tok)
        return v[0]
    if tok[:1] == 'd':
        try:
            n = int(tok[1:])
        except ValueError:
            raise ListingError('bad dec ' + tok)
        return n   # caller decides signed / unsigned interpretation
    raise ListingError('bad byte token ' + tok)


def parse_listing(lines, names=None):
    """Reference reader for the decompiler's listing format -> abstract
    program.  `names` maps extra instruction names (soft forks) to codes."""
    toks = ' '.join(lines).split()
    pos = [0]
    names = names or {}

    def peek():
        return toks[pos[0]] if pos[0] < len(toks) else None

    def nxt():
        if pos[0] >= len(toks):
            raise ListingError('unexpected end of listing')
        t = toks[pos[0]]
        pos[0] += 1
        return t

    def expect(t):
        g = nxt()
        if g != t:
            raise ListingError('expected %s got %s' % (t, g))

    def block():
        expect('{')
        body = seq(('}',))
        expect('}')
        return body

    def b8(tok):
        n = _byte(tok)
        if not -128 <= n <= 255:
            raise ListingError('byte operand out of range ' + tok)
        return n & 0xff

    def one():
        t = nxt()
        if t == 'OP_TRY':
            a = block()
            bb = []
            if peek() == 'EXCEPT':
                nxt()
                bb = block()
            return ['try', a, bb]
        if t in names:
            code = names[t]
        elif t in C:
            code = C[t]
        elif t.startswith('NOP') and t[3:].isdigit() and O.N_OPS <= int(t[3:]) <= 255:
            code = int(t[3:])
        else:
            raise ListingError('unknown instruction name ' + t)
        sh = O.shape_of(code)
        if sh == 'none':
            return ['i', code]
        if sh == 'u8':
            return ['i', code, b8(nxt())]
        if sh in ('lv1', 'lv2'):
            if code in (C['OP_PUSH1'], C['OP_PUSH2']):
                a = nxt()
                p = peek()
                if a[:1] == 'd' and p is not None and _is_value(p):
                    v = _val(nxt())
                    try:
                        sz = int(a[1:])
                    except ValueError:
                        raise ListingError('bad size ' + a)
                    if sz != len(v):
                        raise ListingError('size operand %s does not match value length %d' % (a, len(v)))
                else:
                    v = _val(a)
                return ['i', code, v]
            return ['i', code, _val(nxt())]
        if sh == 'wc':
            key = _val(nxt())
            return ['i', code, key, b8(nxt())]
        if sh == 'f4':
            return ['i', code, _val(nxt())]
        if sh == 'u8u8':
            return ['i', code, b8(nxt()), b8(nxt())]
        if sh == 'u8x3':
            return ['i', code, b8(nxt()), b8(nxt()), b8(nxt())]
        if sh == 'h32':
            return ['i', code, _val(nxt())]
        if sh == 'def':
            h = nxt()
            try:
                hn = int(h[1:]) if h[:1] == 'd' else (int(h[1:], 16) if h[:1] == 'x' else int(h))
            except ValueError:
                raise ListingError('bad def handle ' + h)
            return ['def', hn, block()]
        if sh == 'blk':
            body = block()
            if code == C['OP_IF']:
                if peek() == 'ELSE':
                    nxt()
                    return ['ife', body, block()]
                return ['if', body]
            return ['loop', body]
        raise ListingError('block-pair op named directly: ' + t)

    def seq(stop):
        out = []
        while peek() is not None and peek() not in stop:
            out.append(one())
        return out

    prog = seq(())
    if pos[0] != len(toks):
        raise ListingError('trailing tokens: ' + ' '.join(toks[pos[0]:pos[0] + 4]))
    return prog


def _is_value(tok):
    if tok[:1] == 'x':
        try:
            bytes.fromhex(tok[1:])
            return True
        except ValueError:
            return False
    if tok[:1] == 'd':
        try:
            int(tok[1:])
            return True
        except ValueError:
            return False
    return False
