"""Hypothesis driver: seeded, no database, no deadline, generate-only (the
runner collects failures and shrinks afterwards)."""
from __future__ import annotations
import hypothesis
from hypothesis import HealthCheck, Phase, given, settings, strategies as st  # noqa: F401


def drive(strategy, fn, n, seed):
    """Draw `n` examples from `strategy` under @seed(seed) and call fn(x)."""
    if n <= 0:
        return

    @hypothesis.seed(seed)
    @settings(max_examples=n, database=None, deadline=None, derandomize=False,
              phases=[Phase.generate], report_multiple_bugs=False,
              suppress_health_check=[HealthCheck.too_slow, HealthCheck.data_too_large,
                                     HealthCheck.large_base_example],
              verbosity=hypothesis.Verbosity.quiet)
    @given(strategy)
    def t(x):
        fn(x)
    t()
