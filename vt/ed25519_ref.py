"""Pure-Python RFC 8032 Ed25519 + the point / scalar helpers the oracles need.
Independent of PyNaCl / libsodium."""
from __future__ import annotations
import hashlib

p = 2 ** 255 - 19
L = 2 ** 252 + 27742317777372353535851937790883648493
d = -121665 * pow(121666, p - 2, p) % p
SQRT_M1 = pow(2, (p - 1) // 4, p)


def sha512(b):
    return hashlib.sha512(b).digest()


def inv(x):
    return pow(x, p - 2, p)


def recover_x(y, sign):
    if y >= p:
        return None
    x2 = (y * y - 1) * inv(d * y * y + 1) % p
    if x2 == 0:
        return None if sign else 0
    x = pow(x2, (p + 3) // 8, p)
    if (x * x - x2) % p != 0:
        x = x * SQRT_M1 % p
    if (x * x - x2) % p != 0:
        return None
    if (x & 1) != sign:
        x = p - x
    return x


Gy = 4 * inv(5) % p
Gx = recover_x(Gy, 0)
G = (Gx, Gy, 1, Gx * Gy % p)
IDENT = (0, 1, 1, 0)


def add(P, Q):
    A = (P[1] - P[0]) * (Q[1] - Q[0]) % p
    B = (P[1] + P[0]) * (Q[1] + Q[0]) % p
    C = 2 * P[3] * Q[3] * d % p
    D = 2 * P[2] * Q[2] % p
    E, F, G_, H = B - A, D - C, D + C, B + A
    return (E * F % p, G_ * H % p, F * G_ % p, E * H % p)


def neg(P):
    return ((-P[0]) % p, P[1], P[2], (-P[3]) % p)


def sub(P, Q):
    return add(P, neg(Q))


def mul(s, P):
    Q = IDENT
    while s > 0:
        if s & 1:
            Q = add(Q, P)
        P = add(P, P)
        s >>= 1
    return Q


def enc(P):
    zi = inv(P[2])
    x = P[0] * zi % p
    y = P[1] * zi % p
    return int.to_bytes(y | ((x & 1) << 255), 32, 'little')


def dec(b):
    """Decode 32 bytes to a point, or None (off curve / non-canonical y)."""
    if len(b) != 32:
        return None
    y = int.from_bytes(b, 'little')
    sign = y >> 255
    y &= (1 << 255) - 1
    x = recover_x(y, sign)
    if x is None:
        return None
    return (x, y, 1, x * y % p)


def is_identity(P):
    return P[0] % p == 0 and (P[1] - P[2]) % p == 0


def has_small_order(P):
    return is_identity(mul(8, P))


def in_prime_subgroup(P):
    return is_identity(mul(L, P))


def is_valid_point(b):
    """Mirror of libsodium's crypto_core_ed25519_is_valid_point: canonical,
    on the curve, not of small order, and X(L*P) == 0 -- which, as observed,
    admits the prime-order subgroup and its coset by the point of order 2."""
    P = dec(b)
    if P is None:
        return False
    if enc(P) != b:
        return False
    if has_small_order(P):
        return False
    return mul(L, P)[0] % p == 0


def secret_expand(seed):
    h = sha512(seed)
    a = int.from_bytes(h[:32], 'little')
    a &= (1 << 254) - 8
    a |= (1 << 254)
    return a, h[32:]


def pub(seed):
    a, _ = secret_expand(seed)
    return enc(mul(a, G))


def sign(seed, msg):
    a, prefix = secret_expand(seed)
    A = enc(mul(a, G))
    r = int.from_bytes(sha512(prefix + msg), 'little') % L
    R = enc(mul(r, G))
    h = int.from_bytes(sha512(R + A + msg), 'little') % L
    return R + int.to_bytes((r + h * a) % L, 32, 'little')


def verify(A_, msg, sig):
    """Strict RFC 8032 verification (s < L, canonical decodable A and R)."""
    if len(A_) != 32 or len(sig) != 64:
        return False
    A = dec(A_)
    R = dec(sig[:32])
    if A is None or R is None:
        return False
    s = int.from_bytes(sig[32:], 'little')
    if s >= L:
        return False
    h = int.from_bytes(sha512(sig[:32] + A_ + msg), 'little') % L
    return enc(mul(s, G)) == enc(add(R, mul(h, A)))


# ---- helpers mirroring tapescript's documented derivations
def clamp(b, from_private_key=False):
    x = bytearray(b[:32])
    if from_private_key:
        x[0] &= 0b11111000
        x[31] |= 0b01000000
    x[31] &= 0b01111111
    return bytes(x)


def scalar_int(b):
    return int.from_bytes(b, 'little')


def scalar_bytes(n):
    return int.to_bytes(n % L, 32, 'little')


def base_mul_noclamp(b):
    """scalar bytes (little endian, bit 255 ignored as libsodium does) * G -> encoded point, None if identity."""
    n = scalar_int(b) & ((1 << 255) - 1)
    P = mul(n, G)
    if is_identity(P):
        return None
    return enc(P)


def h_small(*parts):
    return scalar_bytes(int.from_bytes(sha512(b''.join(parts)), 'little'))


def derive_key_from_seed(seed):
    return clamp(sha512(seed)[:32], True)
