"""Worker for C01's interpreter-mode relation: run under `python -O` (asserts stripped), read cases from a JSON file,
print the list of run_auth_scripts verdicts (True / False / 'raised:<type>').  Usage: python -O -m vt.optworker FILE"""
import json, sys
from . import env
from .util import from_jsonable, headroom

F = env.F


def main_compile(sources):
    P = env.P
    out = []
    for src in sources:
        try:
            b = P.compile_script(src)
            out.append(b.hex() if isinstance(b, bytes) else repr(b))
        except BaseException as e:  # noqa
            if isinstance(e, (KeyboardInterrupt, SystemExit)):
                raise
            out.append('raised')
    print(json.dumps({'optimised': not __debug__, 'verdicts': out}))


def main():
    cases = from_jsonable(json.load(open(sys.argv[1])))
    if isinstance(cases, dict) and cases.get('mode') == 'compile':
        return main_compile(cases['sources'])
    out = []
    for c in cases:
        env.pin_clock(1_700_000_000)
        env.pin_random(b'c01')
        try:
            with headroom(1000):
                mi, ms, cl = c['limits']
                try:
                    v = F.run_auth_scripts(list(c['scripts']), dict(c['cache']), stack_max_items=mi, stack_max_item_size=ms,
                                           callstack_limit=cl)
                    out.append(v if v is True or v is False else repr(v))
                except BaseException as e:  # noqa
                    if isinstance(e, (KeyboardInterrupt, SystemExit)):
                        raise
                    out.append('raised:' + type(e).__name__)
        finally:
            env.unpin_clock()
            env.unpin_random()
    print(json.dumps({'optimised': not __debug__, 'verdicts': out}))


if __name__ == '__main__':
    main()
