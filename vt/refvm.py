"""Reference interpreter for tapescript bytecode, written from docs.md / language_spec.md (operand orders as pinned by
the unit tests).  Lists for the stack, a plain dict for the cache, vt/ed25519_ref.py for every crypto op, own
two's-complement / IEEE-754 decoders.  Points of documentary ambiguity raise Stop: the comparison ends there.

Integer RESULTS are encoded with the implementation's int_to_bytes (non-minimal encodings exist and are allowed; the
exactness of the codec is C10's job)."""
from __future__ import annotations
import hashlib
import math
import struct
from . import optable as O
from . import ed25519_ref as E

NUM = dict(O.NAMES)
L = E.L


class Err(Exception):
    """the script fails here (any error)"""


class Stop(Exception):
    """documented ambiguity / unmodelled: stop comparing"""


TRUE, FALSE = b'\xff', b'\x00'


def dec_int(b):
    if not b:
        raise Err('empty int')
    return int.from_bytes(b, 'big', signed=True)


def dec_f(b):
    if len(b) != 4:
        raise Err('float length')
    p = int.from_bytes(b, 'big')
    s = -1.0 if p >> 31 else 1.0
    e = (p >> 23) & 0xff
    m = p & 0x7fffff
    if e == 255:
        return math.nan if m else s * math.inf
    if e == 0:
        return s * math.ldexp(m, -149)
    return s * math.ldexp(m | 0x800000, e - 150)


def enc_f(x):
    if math.isnan(x):
        raise Err('nan result')
    try:
        return struct.pack('!f', x)
    except OverflowError:
        raise Err('float overflow')


def truthy(b):
    return any(b)


def sha(b):
    return hashlib.sha256(b).digest()


def valid_point(b):
    return len(b) == 32 and E.is_valid_point(b)


def honest_point(b):
    """on curve, canonical, in the prime-order subgroup, not the identity"""
    if len(b) != 32:
        return False
    P = E.dec(b)
    return P is not None and E.enc(P) == b and not E.has_small_order(P) and E.in_prime_subgroup(P)


# instructions that are documented as a composition of others or that validate several operands: which operands a
# FAILING execution has already consumed is not specified, so a TRY that catches their failure ends the comparison
PARTIAL_EFFECTS_UNDEFINED = {
    'OP_MERKLEVAL', 'OP_TAPROOT', 'OP_CHECK_SIG', 'OP_CHECK_SIG_VERIFY', 'OP_CHECK_MULTISIG', 'OP_CHECK_MULTISIG_VERIFY',
    'OP_CHECK_SIG_STACK', 'OP_SIGN', 'OP_SIGN_STACK', 'OP_ADD_POINTS', 'OP_SUBTRACT_POINTS', 'OP_ADD_SCALARS',
    'OP_SUBTRACT_SCALARS', 'OP_DERIVE_POINT', 'OP_CLAMP_SCALAR', 'OP_MAKE_ADAPTER_SIG_PUBLIC', 'OP_CHECK_ADAPTER_SIG',
    'OP_DECRYPT_ADAPTER_SIG', 'OP_INVOKE', 'OP_CHECK_TRANSFER', 'OP_CHECK_TEMPLATE', 'OP_CHECK_TEMPLATE_VERIFY',
    'OP_EQUAL_VERIFY', 'OP_CHECK_TIMESTAMP', 'OP_CHECK_TIMESTAMP_VERIFY', 'OP_CHECK_EPOCH', 'OP_CHECK_EPOCH_VERIFY',
}


class Contract:
    """model contract: CanBeInvoked + CanCheckTransfer"""

    def abi(self, args):
        return [b'\x2a'] + [sha(a)[:2] for a in args[:2]]

    def verify_txn_proof(self, p):
        return p != b'badproof'

    def verify_transfer(self, p, s, d):
        return s != b'badsrc'

    def verify_txn_constraint(self, p, c):
        return c != b'no'

    def calc_txn_aggregates(self, proofs, scope=None):
        return {scope: 10 * len(proofs)}


class InvokeOnly:
    def abi(self, args):
        return None


class Ref:
    def __init__(self, cache, limits=(1024, 1024, 128), int_enc=None, now=0, token_bytes=None, contracts=None,
                 loop_return_propagates=False, flags=None):
        self.stack = []
        self.cache = dict(cache)
        self.max_items, self.max_size, self.limit = limits
        self.enc_int = int_enc
        self.now = int(now)
        self.token_bytes = token_bytes
        self.contracts = contracts or {}
        self.loop_return_propagates = loop_return_propagates
        self.flags = {'ts_threshold': 60, 'epoch_threshold': 60}
        self.flags.update({i: True for i in range(11)})
        self.flags.update(flags or {})
        self.ncalls_total = 0
        self.steps = 0
        self.ambiguous_defs = set()
        self.in_fn = 0              # > 0 while the body of a called function runs
        self.scope_defs = []        # handles (re)defined so far in each open conditional / evaluated body
        self.opstat = {}
        self.partial = None

    # -- stack
    def put(self, x):
        if not isinstance(x, bytes):
            raise Err('non-bytes')
        if len(x) > self.max_size:
            raise Err('item size')
        if len(self.stack) >= self.max_items:
            raise Err('stack full')
        self.stack.append(x)

    def pop(self):
        if not self.stack:
            raise Err('empty stack')
        return self.stack.pop()

    def message(self, flag):
        out = b''
        for i in range(1, 9):
            k = 'sigfield%d' % i
            if k in self.cache and not (flag >> (i - 1)) & 1:
                v = self.cache[k]
                if not isinstance(v, bytes):
                    raise Err('sigfield type')
                out += v
        return out

    def check_sig(self, sig, key, allowed):
        """-> bool, raises Err for malformed / non-permitted"""
        if len(key) != 32 or len(sig) not in (64, 65):
            raise Err('sig/key length')
        flag = sig[64] if len(sig) == 65 else 0
        if flag & ~allowed & 0xff:
            raise Err('disallowed flag')
        if E.dec(key) is None:
            raise Stop('key that is not a point: libsodium decides')
        return E.verify(key, self.message(flag), sig[:64])

    # -- execution
    def run(self, code, defs, depth):
        """-> True if a RETURN propagates out of this tape"""
        p = 0
        st = self

        def rd(n):
            nonlocal p
            if p + n > len(code):
                raise Err('read past end')
            b = code[p:p + n]
            p += n
            return b

        def u8():
            return rd(1)[0]

        def blk():
            return rd(int.from_bytes(rd(2), 'big'))
        while p < len(code):
            op = u8()
            self.steps += 1
            if self.steps > 20000:
                raise Stop('step budget')
            name = NUM.get(op, 'NOP')
            try:
                self._exec(name, rd, u8, blk, defs, depth)
            except Err as e:
                if not hasattr(e, 'opname'):
                    e.opname = name
                raise
            if self._returned:
                self._returned = False
                self.opstat[name] = self.opstat.get(name, 0) + 1
                return True
            self.opstat[name] = self.opstat.get(name, 0) + 1
        return False

    _returned = False

    def sub(self, body, defs, depth):
        d2 = dict(defs)
        self.scope_defs.append(set())
        try:
            r = self.run(body, d2, depth)
        finally:
            self.scope_defs.pop()
        for h in d2:
            if d2[h] is not defs.get(h):
                self.ambiguous_defs.add(h)
        return r

    def _exec(self, name, rd, u8, blk, defs, depth):
        st = self
        enc_int = self.enc_int
        if name == 'NOP':
            n = int.from_bytes(rd(1), 'big', signed=True)
            if n < 0:
                raise Err('nop negative')
            for _ in range(n):
                st.pop()
        elif name == 'OP_FALSE':
            st.put(FALSE)
        elif name == 'OP_TRUE':
            st.put(TRUE)
        elif name == 'OP_PUSH0':
            st.put(rd(1))
        elif name == 'OP_PUSH1':
            st.put(rd(u8()))
        elif name == 'OP_PUSH2':
            st.put(rd(int.from_bytes(rd(2), 'big')))
        elif name == 'OP_GET_MESSAGE':
            st.put(self.message(u8()))
        elif name == 'OP_POP0':
            self.cache[b'P'] = [st.pop()]
        elif name == 'OP_POP1':
            n = u8()
            self.cache[b'P'] = [st.pop() for _ in range(n)]
        elif name == 'OP_SIZE':
            st.put(enc_int(len(st.pop())))
        elif name == 'OP_WRITE_CACHE':
            k = rd(u8())
            n = u8()
            self.cache[k] = [st.pop() for _ in range(n)]
        elif name in ('OP_READ_CACHE', 'OP_READ_CACHE_STACK'):
            k = rd(u8()) if name == 'OP_READ_CACHE' else st.pop()
            if k not in self.cache:
                raise Err('no key')
            if k == b'E':
                raise Stop('reads the opaque error text')
            v = self.cache[k]
            for it in (v if isinstance(v, (list, tuple)) else [v]):
                st.put(it)
        elif name in ('OP_READ_CACHE_SIZE', 'OP_READ_CACHE_STACK_SIZE'):
            k = rd(u8()) if name == 'OP_READ_CACHE_SIZE' else st.pop()
            if k not in self.cache:
                st.put(enc_int(0))
            else:
                v = self.cache[k]
                st.put(enc_int(len(v) if isinstance(v, (list, tuple)) else 1))
        elif name == 'OP_ADD_INTS':
            n = u8()
            t = 0
            for _ in range(n):
                t += dec_int(st.pop())
            st.put(enc_int(t))
        elif name in ('OP_SUBTRACT_INTS', 'OP_MULT_INTS'):
            n = u8()
            if n == 0:
                raise Stop('count 0 is documented both ways')
            t = dec_int(st.pop())
            for _ in range(n - 1):
                v = dec_int(st.pop())
                t = t - v if name == 'OP_SUBTRACT_INTS' else t * v
            st.put(enc_int(t))
        elif name in ('OP_DIV_INT', 'OP_MOD_INT'):
            d = dec_int(rd(u8()))
            a = dec_int(st.pop())
            if d == 0:
                raise Err('division by zero')
            if (a < 0) != (d < 0) and a % d != 0:
                raise Stop('rounding direction of negative quotients is not documented')
            st.put(enc_int(a // d if name == 'OP_DIV_INT' else a % d))
        elif name in ('OP_DIV_INTS', 'OP_MOD_INTS'):
            a = dec_int(st.pop())
            d = dec_int(st.pop())
            if d == 0:
                raise Err('division by zero')
            if (a < 0) != (d < 0) and a % d != 0:
                raise Stop('rounding direction of negative quotients is not documented')
            st.put(enc_int(a // d if name == 'OP_DIV_INTS' else a % d))
        elif name == 'OP_ADD_FLOATS':
            n = u8()
            t = 0.0
            for _ in range(n):
                t += dec_f(st.pop())
            st.put(enc_f(t))
        elif name == 'OP_SUBTRACT_FLOATS':
            n = u8()
            if n == 0:
                raise Stop('count 0 is documented both ways')
            t = dec_f(st.pop())
            for _ in range(n - 1):
                t -= dec_f(st.pop())
            st.put(enc_f(t))
        elif name in ('OP_DIV_FLOAT', 'OP_MOD_FLOAT'):
            d = dec_f(rd(4))
            a = dec_f(st.pop())
            if d == 0 or math.isnan(d) or math.isnan(a):
                raise Err('float division')
            if name == 'OP_DIV_FLOAT':
                st.put(enc_f(a / d))
            else:
                if math.isinf(a):
                    raise Err('nan')
                st.put(enc_f(math.fmod(a, d) if math.isinf(d) and False else a % d))
        elif name == 'OP_DIV_FLOATS':
            a = dec_f(st.pop())
            d = dec_f(st.pop())          # tests pin top / second
            if d == 0 or math.isnan(d) or math.isnan(a):
                raise Err('float division')
            st.put(enc_f(a / d))
        elif name == 'OP_MOD_FLOATS':
            d = dec_f(st.pop())
            a = dec_f(st.pop())          # second % first (top)
            if d == 0 or math.isnan(d) or math.isnan(a) or math.isinf(a):
                raise Err('float modulus')
            st.put(enc_f(a % d))
        elif name == 'OP_ADD_POINTS':
            n = u8()
            pts = [st.pop() for _ in range(n)]
            if n == 0:
                raise Err('no points')
            for q in pts:
                if len(q) != 32:
                    raise Err('point length')
                if not valid_point(q):
                    raise Err('invalid point')
            acc = E.dec(pts[0])
            for q in pts[1:]:
                acc = E.add(acc, E.dec(q))
            if E.is_identity(acc):
                raise Stop('identity result')
            st.put(E.enc(acc))
        elif name == 'OP_COPY':
            n = u8()
            x = st.pop()
            for _ in range(n + 1):
                st.put(x)
        elif name == 'OP_DUP':
            x = st.pop()
            st.put(x)
            st.put(x)
        elif name == 'OP_SHA256':
            st.put(sha(st.pop()))
        elif name == 'OP_SHAKE256':
            n = u8()
            st.put(hashlib.shake_256(st.pop()).digest(n))
        elif name == 'OP_VERIFY':
            if not truthy(st.pop()):
                raise Err('verify')
        elif name in ('OP_EQUAL', 'OP_EQUAL_VERIFY'):
            a, b = st.pop(), st.pop()
            if name == 'OP_EQUAL':
                st.put(TRUE if a == b else FALSE)
            elif a != b:
                raise Err('verify')
        elif name in ('OP_CHECK_SIG', 'OP_CHECK_SIG_VERIFY'):
            allowed = u8()
            key = st.pop()
            sig = st.pop()
            r = self.check_sig(sig, key, allowed)
            if name == 'OP_CHECK_SIG':
                st.put(TRUE if r else FALSE)
            elif not r:
                raise Err('verify')
        elif name in ('OP_CHECK_TIMESTAMP', 'OP_CHECK_TIMESTAMP_VERIFY'):
            c = st.pop()
            if not c:
                raise Err('constraint')
            c = int.from_bytes(c, 'big')
            t = self.cache.get('timestamp')
            if type(t) is not int:
                raise Err('timestamp')
            thr = self.flags['ts_threshold']
            r = t >= c and (thr <= 0 or t - self.now < thr)
            if name.endswith('VERIFY'):
                if not r:
                    raise Err('verify')
            else:
                st.put(TRUE if r else FALSE)
        elif name in ('OP_CHECK_EPOCH', 'OP_CHECK_EPOCH_VERIFY'):
            c = st.pop()
            if not c:
                raise Err('constraint')
            r = int.from_bytes(c, 'big') - self.now < self.flags['epoch_threshold']
            if name.endswith('VERIFY'):
                if not r:
                    raise Err('verify')
            else:
                st.put(TRUE if r else FALSE)
        elif name == 'OP_DEF':
            h = rd(1)
            body = blk()
            if self.in_fn:
                raise Stop('definition inside a function body: "undocumented behavior" (language_spec.md)')
            defs[h] = body
            self.ambiguous_defs.discard(h)
            if self.scope_defs:
                self.scope_defs[-1].add(h)
        elif name == 'OP_CALL':
            if depth >= self.limit:
                raise Err('call limit')
            h = rd(1)
            if h in self.ambiguous_defs:
                raise Stop('definition made inside a conditional body')
            if self.in_fn and any(h in sc for sc in self.scope_defs):
                raise Stop('a function calls a handle that an open conditional / evaluated body (re)defined: whether it binds to the '
                           'table of its definition or of its caller is not documented')
            if h not in defs:
                raise Err('undefined function')
            self.ncalls_total += 1
            if self.ncalls_total >= self.limit:
                raise Stop('call budget accounting')
            self.in_fn += 1
            try:
                self.run(defs[h], defs, depth + 1)
            finally:
                self.in_fn -= 1
        elif name == 'OP_EVAL':
            self.eval_item(st.pop, defs, depth)
        elif name == 'OP_IF':
            body = blk()
            if truthy(st.pop()):
                if self.sub(body, defs, depth):
                    self._returned = True
        elif name == 'OP_IF_ELSE':
            a = blk()
            b = blk()
            if self.sub(a if truthy(st.pop()) else b, defs, depth):
                self._returned = True
        elif name == 'OP_TRY_EXCEPT':
            a = blk()
            b = blk()
            try:
                r = self.sub(a, defs, depth)
            except Err as e:
                if getattr(e, 'opname', None) in PARTIAL_EFFECTS_UNDEFINED:
                    raise Stop('stack left by a failing composite instruction is not specified')
                self.cache[b'E'] = ['<opaque>']
                r = self.sub(b, defs, depth)
            if r:
                self._returned = True
        elif name == 'OP_LOOP':
            body = blk()
            cnt = 0
            if not st.stack:
                raise Err('peek')
            while truthy(st.stack[-1]):
                if cnt >= self.limit:
                    raise Err('loop limit')
                if self.run(body, defs, depth):
                    if self.loop_return_propagates:
                        self._returned = True
                    self.loop_returns = getattr(self, 'loop_returns', 0) + 1
                    return
                cnt += 1
                if not st.stack:
                    raise Err('peek')
        elif name == 'OP_NOT':
            st.put(bytes(x ^ 0xff for x in st.pop()))
        elif name == 'OP_RANDOM':
            n = dec_int(st.pop())
            if n < 0:
                raise Err('negative size')
            if n > self.max_size:
                raise Err('size over item limit')
            st.put(self.token_bytes(n))
        elif name == 'OP_RETURN':
            self._returned = True
        elif name in ('OP_SET_FLAG', 'OP_UNSET_FLAG'):
            raise Stop('flag instructions are judged by C09')
        elif name == 'OP_DEPTH':
            st.put(enc_int(len(st.stack)))
        elif name == 'OP_SWAP':
            i, j = u8(), u8()
            if i == j and i >= len(st.stack):
                raise Stop('swapping an absent item with itself: error or no-op is not documented')
            if i != j:
                if max(i, j) >= len(st.stack):
                    raise Err('swap depth')
                s = st.stack
                s[-1 - i], s[-1 - j] = s[-1 - j], s[-1 - i]
        elif name == 'OP_SWAP2':
            a, b = st.pop(), st.pop()
            st.put(a)
            st.put(b)
        elif name == 'OP_REVERSE':
            n = u8()
            if n > len(st.stack):
                raise Err('reverse depth')
            if n:
                st.stack[-n:] = st.stack[-n:][::-1]
        elif name == 'OP_CONCAT':
            b, a = st.pop(), st.pop()
            st.put(a + b)
        elif name in ('OP_SPLIT', 'OP_SPLIT_STR'):
            i = dec_int(st.pop())
            x = st.pop()
            if name == 'OP_SPLIT_STR':
                try:
                    x = x.decode('utf-8')
                except UnicodeDecodeError:
                    raise Err('utf8')
            if i < 0 or i > len(x):
                raise Err('index')
            if i == len(x):
                raise Stop('split at index == length is not defined')
            a, b = x[:i], x[i:]
            if name == 'OP_SPLIT_STR':
                a, b = a.encode(), b.encode()
            st.put(a)
            st.put(b)
        elif name == 'OP_CONCAT_STR':
            try:
                b = st.pop().decode('utf-8')
                a = st.pop().decode('utf-8')
            except UnicodeDecodeError:
                raise Err('utf8')
            st.put((a + b).encode())
        elif name == 'OP_CHECK_TRANSFER':
            cid = st.pop()
            amount = dec_int(st.pop())
            constraint = st.pop()
            dest = st.pop()
            count = int.from_bytes(st.pop(), 'big')
            if count > len(st.stack):
                raise Err('count')
            sources = [st.pop() for _ in range(count)]
            proofs = [st.pop() for _ in range(count)]
            c = self.contracts.get(cid)
            if c is None or not hasattr(c, 'verify_txn_proof'):
                raise Err('contract')
            ok = True
            for i in range(count):
                ok = ok and c.verify_txn_proof(proofs[i]) and c.verify_transfer(proofs[i], sources[i], dest)
                if len(constraint):
                    ok = ok and c.verify_txn_constraint(proofs[i], constraint)
            agg = c.calc_txn_aggregates(proofs, scope=dest)[dest]
            st.put(TRUE if ok and amount <= agg else FALSE)
        elif name == 'OP_MERKLEVAL':
            root = rd(32)
            # the documented composition (DUP, SHA256 x2, move the sibling up, SHA256, XOR, push root, EQUAL_VERIFY, EVAL):
            # it needs two free stack slots and every intermediate item obeys the item-size limit
            script = st.pop()
            st.put(script)
            st.put(script)                      # DUP
            st.put(sha(sha(st.pop())))          # SHA256 twice
            h = st.pop()
            script = st.pop()
            sibling = st.pop()
            st.put(script)
            st.put(h)
            st.put(sha(sibling))                # sibling moved to the top and hashed
            a2, b2 = st.pop(), st.pop()
            n2 = max(len(a2), len(b2))
            st.put(bytes(x ^ y for x, y in zip(a2.ljust(n2, b'\0'), b2.ljust(n2, b'\0'))))   # XOR
            st.put(root)
            if st.pop() != st.pop():            # EQUAL_VERIFY
                raise Err('merkle mismatch')
            self.eval_item(st.pop, defs, depth)
        elif name in ('OP_LESS', 'OP_LESS_OR_EQUAL'):
            a = dec_int(st.pop())
            b = dec_int(st.pop())
            st.put(TRUE if (a < b if name == 'OP_LESS' else a <= b) else FALSE)
        elif name == 'OP_GET_VALUE':
            try:
                k = rd(u8()).decode('utf-8')
            except UnicodeDecodeError:
                raise Err('utf8')
            if k not in self.cache:
                raise Err('no key')
            v = self.cache[k]
            for it in (v if isinstance(v, (list, tuple)) else [v]):
                if type(it) in (bytes, bytearray):
                    st.put(bytes(it))
                elif type(it) is str:
                    st.put(it.encode())
                elif type(it) is int:
                    st.put(enc_int(it))
                elif type(it) is float:
                    try:
                        st.put(struct.pack('!f', it))
                    except OverflowError:
                        raise Err('float overflow')
        elif name in ('OP_FLOAT_LESS', 'OP_FLOAT_LESS_OR_EQUAL'):
            a = dec_f(st.pop())
            b = dec_f(st.pop())
            st.put(TRUE if (a < b if name == 'OP_FLOAT_LESS' else a <= b) else FALSE)
        elif name == 'OP_INT_TO_FLOAT':
            n = dec_int(st.pop())
            try:
                st.put(enc_f(float(n)))
            except OverflowError:
                raise Err('overflow')
        elif name == 'OP_FLOAT_TO_INT':
            x = dec_f(st.pop())
            if math.isnan(x) or math.isinf(x):
                raise Err('non-finite')
            st.put(enc_int(int(x)))
        elif name in ('OP_CHECK_MULTISIG', 'OP_CHECK_MULTISIG_VERIFY'):
            allowed, m, n = u8(), u8(), u8()
            keys = [st.pop() for _ in range(n)]
            sigs = [st.pop() for _ in range(m)]
            if len(set(keys)) != len(keys):
                raise Stop('duplicate keys')
            used = set()
            okc = 0
            seen = set()
            for s in sigs:
                for i, k in enumerate(keys):
                    if i in used:
                        continue
                    if self.check_sig(s, k, allowed):
                        used.add(i)
                        seen.add(s)
                        break
            r = len(seen) == len(sigs)
            if name.endswith('VERIFY'):
                if not r:
                    raise Err('verify')
            else:
                st.put(TRUE if r else FALSE)
        elif name == 'OP_SIGN':
            flag = u8()
            seed = st.pop()
            if len(seed) != 32:
                raise Err('seed length')
            sig = E.sign(seed, self.message(flag)) + (bytes([flag]) if flag else b'')
            if self.flags.get(9):
                self.cache[b's'] = sig
            st.put(sig)
        elif name == 'OP_SIGN_STACK':
            seed = st.pop()
            msg = st.pop()
            if len(seed) != 32:
                raise Err('seed length')
            sig = E.sign(seed, msg)
            if self.flags.get(9):
                self.cache[b's'] = sig
            st.put(sig)
        elif name == 'OP_CHECK_SIG_STACK':
            key = st.pop()
            if len(key) != 32:
                raise Err('key length')
            msg = st.pop()
            sig = st.pop()
            if len(sig) != 64:
                raise Err('sig length')
            if E.dec(key) is None:
                raise Stop('key that is not a point')
            st.put(TRUE if E.verify(key, msg, sig) else FALSE)
        elif name == 'OP_DERIVE_SCALAR':
            seed = st.pop()
            x = E.clamp(E.sha512(seed)[:32], True)
            if self.flags.get(1):
                self.cache[b'x'] = x
            st.put(x)
        elif name == 'OP_CLAMP_SCALAR':
            is_key = bool(u8())
            v = st.pop()
            if len(v) < 32:
                raise Err('scalar length')
            st.put(E.clamp(v[:32], is_key))
        elif name in ('OP_ADD_SCALARS', 'OP_SUBTRACT_SCALARS'):
            n = u8()
            if n == 0:
                if name == 'OP_ADD_SCALARS':
                    raise Err('no scalars')
                raise Stop('count 0 is documented both ways')
            items = [st.pop() for _ in range(n)]
            if n == 1:
                st.put(items[0])
            else:
                if any(len(i) != 32 for i in items):
                    raise Err('scalar length')
                t = E.scalar_int(items[0])
                for i in items[1:]:
                    v = E.scalar_int(i) if name == 'OP_ADD_SCALARS' else (-E.scalar_int(i)) % L
                    if t + v >= 2 ** 256:
                        raise Stop('unreduced scalars whose sum exceeds 256 bits: libsodium semantics')
                    t = (t + v) % L if len(items) > 2 else t + v
                st.put(E.scalar_bytes(t))
        elif name == 'OP_DERIVE_POINT':
            x = st.pop()
            if len(x) != 32:
                raise Err('scalar length')
            X = E.base_mul_noclamp(x)
            if X is None:
                raise Err('identity')
            if self.flags.get(2):
                self.cache[b'X'] = X
            st.put(X)
        elif name == 'OP_SUBTRACT_POINTS':
            n = u8()
            if n == 0:
                raise Stop('count 0 is documented both ways')
            items = [st.pop() for _ in range(n)]
            if n == 1:
                st.put(items[0])
            else:
                if any(len(i) != 32 for i in items):
                    raise Err('point length')
                if not all(honest_point(i) for i in items):
                    raise Stop('libsodium semantics for unusual points')
                acc = E.dec(items[0])
                for i in items[1:]:
                    acc = E.sub(acc, E.dec(i))
                if E.is_identity(acc):
                    raise Stop('identity result')
                st.put(E.enc(acc))
        elif name == 'OP_MAKE_ADAPTER_SIG_PUBLIC':
            T = st.pop()
            m = st.pop()
            seed = st.pop()
            if not valid_point(T):
                raise Err('invalid tweak point')
            if not honest_point(T):
                raise Stop('unusual point')
            x = E.scalar_int(E.derive_key_from_seed(seed))
            X = E.enc(E.mul(x % L, E.G))
            nonce = E.sha512(seed)[32:]
            r = E.scalar_int(E.clamp(E.h_small(E.sha512(nonce + m))))
            if r % L == 0:
                raise Stop('zero nonce')
            R = E.enc(E.mul(r % L, E.G))
            RT = E.add(E.dec(R), E.dec(T))
            if E.is_identity(RT):
                raise Stop('identity')
            ca = E.scalar_int(E.clamp(E.h_small(E.enc(RT), X, m)))
            sa = E.scalar_bytes(r + ca * x)
            if self.flags.get(3):
                self.cache[b'r'] = E.clamp(E.h_small(E.sha512(nonce + m)))
            if self.flags.get(4):
                self.cache[b'R'] = R
            if self.flags.get(6):
                self.cache[b'T'] = T
            if self.flags.get(8):
                self.cache[b'sa'] = sa
            st.put(R)
            st.put(sa)
        elif name == 'OP_MAKE_ADAPTER_SIG_PRIVATE':
            raise Stop('known finding: scheme of MAKE_ADAPTER_SIG_PRIVATE')
        elif name == 'OP_CHECK_ADAPTER_SIG':
            X = st.pop()
            T = st.pop()
            m = st.pop()
            R = st.pop()
            sa = st.pop()
            if len(sa) != 32:
                raise Err('scalar length')
            if not (valid_point(R) and valid_point(T)):
                raise Err('invalid point')
            if not (honest_point(R) and honest_point(T) and honest_point(X)):
                raise Stop('unusual point')
            if E.scalar_int(sa) >= L:
                st.put(FALSE)
                return
            RT = E.add(E.dec(R), E.dec(T))
            if E.is_identity(RT):
                raise Stop('identity')
            ca = E.scalar_int(E.clamp(E.h_small(E.enc(RT), X, m)))
            if E.scalar_int(sa) == 0 or ca % L == 0:
                raise Stop('zero scalar')
            lhs = E.enc(E.mul(E.scalar_int(sa), E.G))
            rhs_p = E.add(E.dec(R), E.mul(ca % L, E.dec(X)))
            if E.is_identity(rhs_p):
                raise Stop('identity')
            st.put(TRUE if lhs == E.enc(rhs_p) else FALSE)
        elif name == 'OP_DECRYPT_ADAPTER_SIG':
            t = st.pop()
            if len(t) < 32:
                raise Err('scalar length')
            t = E.clamp(t[:32])
            R = st.pop()
            sa = st.pop()
            tv = E.scalar_int(t) % L
            if tv == 0:
                raise Err('identity')
            if not valid_point(R):
                raise Err('invalid point')
            if not honest_point(R):
                raise Stop('unusual point')
            if len(sa) != 32:
                raise Err('scalar length')
            RT = E.add(E.dec(R), E.mul(tv, E.G))
            if E.is_identity(RT):
                raise Stop('identity')
            s = E.scalar_bytes(E.scalar_int(sa) + tv)
            if self.flags.get(7):
                self.cache[b'RT'] = E.enc(RT)
            if self.flags.get(9):
                self.cache[b's'] = s
            st.put(E.enc(RT))
            st.put(s)
        elif name == 'OP_INVOKE':
            cid = st.pop()
            argc = dec_int(st.pop())
            if argc < 0:
                raise Err('argcount')
            args = [st.pop() for _ in range(argc)]
            c = self.contracts.get(cid)
            if c is None or not hasattr(c, 'abi'):
                raise Err('contract')
            res = c.abi(args)
            if res is not None:
                for r in res:
                    st.put(r)
                if self.flags.get(0):
                    self.cache[b'IR'] = list(res)
        elif name in ('OP_XOR', 'OP_OR', 'OP_AND'):
            a, b = st.pop(), st.pop()
            n = max(len(a), len(b))
            a, b = a.ljust(n, b'\0'), b.ljust(n, b'\0')
            f = {'OP_XOR': lambda x, y: x ^ y, 'OP_OR': lambda x, y: x | y, 'OP_AND': lambda x, y: x & y}[name]
            st.put(bytes(f(x, y) for x, y in zip(a, b)))
        elif name in ('OP_CHECK_TEMPLATE', 'OP_CHECK_TEMPLATE_VERIFY'):
            f = u8()
            ok = True
            for i in range(1, 9):
                if (f >> (i - 1)) & 1:
                    tpl = st.pop()
                    if 'sigfield%d' % i not in self.cache:
                        raise Stop('template for an absent sigfield: "False otherwise" or an error - not documented')
                    ok = ok and tpl == self.cache['sigfield%d' % i]
            st.put(TRUE if ok else FALSE)           # the _VERIFY form "runs OP_CHECK_TEMPLATE and then OP_VERIFY": it needs the slot
            if name.endswith('VERIFY'):
                if not truthy(st.pop()):
                    raise Err('verify')
        elif name == 'OP_TAPROOT':
            allowed = u8()
            root = st.pop()
            if len(root) != 32:
                raise Err('root length')
            if not st.stack:
                raise Err('peek')
            if len(st.stack[-1]) == 32:
                key = st.pop()
                script = st.pop()
                if not valid_point(key):
                    raise Err('invalid point')
                if not honest_point(key):
                    raise Stop('unusual point')
                t = E.scalar_int(E.clamp(sha(key + sha(script)))) % L
                if t == 0:
                    raise Stop('zero tweak')
                pt = E.add(E.dec(key), E.mul(t, E.G))
                if E.is_identity(pt):
                    raise Stop('identity')
                if E.enc(pt) != root:
                    st.put(FALSE)
                    return
                self.eval_item(lambda: script, defs, depth)
            else:
                sig = st.pop()
                st.put(TRUE if self.check_sig(sig, root, allowed) else FALSE)
        else:
            raise Stop('unmodelled ' + name)

    def eval_item(self, getter, defs, depth):
        if 'disallow_OP_EVAL' in self.flags:
            raise Err('eval disallowed')
        if depth >= self.limit:
            raise Err('call limit')
        s = getter()
        if not s:
            raise Err('empty script')
        self.ncalls_total += 1
        if self.ncalls_total >= self.limit:
            raise Stop('call budget accounting')
        self.scope_defs.append(set())
        try:
            r = self.run(s, dict(defs), depth + 1)
        finally:
            self.scope_defs.pop()
        if r and self.flags.get('eval_return'):
            self._returned = True
