"""Observation device for C04 / C05 / C13: a recording CanBeInvoked contract.
Every observed script starts with `push <tag> push d1 push <contract id> invoke`;
the list of recorded tags is "which script bodies started"."""
from __future__ import annotations
from . import optable as O
C = O.CODES
CID = b'\xee' * 8


class Rec:
    def __init__(self):
        self.seen = []

    def abi(self, args):
        self.seen.append(bytes(args[0]) if args else b'')
        return None


def push(v):
    if len(v) == 1:
        return bytes([C['OP_PUSH0']]) + v
    if len(v) < 256:
        return bytes([C['OP_PUSH1'], len(v)]) + v
    return bytes([C['OP_PUSH2']]) + len(v).to_bytes(2, 'big') + v


def prefix(tag):
    return push(tag) + push(b'\x01') + push(CID) + bytes([C['OP_INVOKE']])


def observed(tag, body):
    return prefix(tag) + body
