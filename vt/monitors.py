"""Step monitors installed from the harness by rebinding module attributes."""
from __future__ import annotations
from collections import deque
from . import env

F, P, Cl = env.F, env.P, env.C


class MonitorAbort(BaseException):
    """Raised by a monitor after recording a violation, to end the case."""


class Monitor:
    """Shared violation log.  After the first violation every monitored
    operation aborts the case."""

    def __init__(self):
        self.violations = []
        self.tripped = False
        self.events = {}

    def violate(self, kind, detail=''):
        self.violations.append((kind, str(detail)[:300]))
        self.tripped = True
        raise MonitorAbort(kind)

    def guard(self):
        if self.tripped:
            raise MonitorAbort('aborted')

    def event(self, name, n=1):
        self.events[name] = self.events.get(name, 0) + n


_CUR = [None]   # the active Monitor


def current():
    return _CUR[0]


class MonTape(Cl.Tape):
    """Tape whose every read / pointer assignment is checked."""

    def __setattr__(self, k, v):
        if k == 'pointer':
            m = _CUR[0]
            if m is not None and 'data' in self.__dict__:
                m.guard()
                old = self.__dict__.get('pointer', 0)
                if not isinstance(v, int) or v < 0 or v > len(self.__dict__['data']):
                    object.__setattr__(self, k, v)
                    m.violate('pointer-out-of-bounds', '%r (len %d)' % (v, len(self.__dict__['data'])))
                if v < old and v != 0:
                    object.__setattr__(self, k, v)
                    m.violate('pointer-moved-backwards', '%d -> %d' % (old, v))
        object.__setattr__(self, k, v)

    def read(self, size, move_pointer=True):
        m = _CUR[0]
        if m is not None:
            m.guard()
            if not isinstance(size, int) or size < 0:
                m.violate('negative-read', repr(size))
            if self.pointer + size <= len(self.data):
                m.event('reads')
                if size:
                    m.event('operand_bytes', size)
            else:
                m.event('read-past-end-rejected')
        return super().read(size, move_pointer)


class install_tape:
    """with install_tape(monitor): ... binds MonTape into functions / parsing /
    tools so that every tape (and sub-tape) created there is monitored."""

    def __init__(self, monitor, cls=MonTape):
        self.m, self.cls = monitor, cls

    def __enter__(self):
        self.old = (F.Tape, P.Tape, env.T.Tape, _CUR[0])
        F.Tape = P.Tape = env.T.Tape = self.cls
        _CUR[0] = self.m
        return self.m

    def __exit__(self, *a):
        F.Tape, P.Tape, env.T.Tape, _CUR[0] = self.old
        return False


class BudgetMonitor(Monitor):
    """Counts tape reads and trips after `max_reads`.  Generated scripts can make the work explode - every level of LOOP or
    TRY / EXCEPT around a recursive CALL / EVAL multiplies it by the call-stack limit (TRY catches the limit errors), so a
    40-byte script can run for centuries.  Such a case decides nothing about the properties that do not speak about
    running time; it is screened out (and counted) before a check runs it unmonitored.  After the trip every read of
    every tape raises again, so the abort also gets out of the script's own TRY blocks."""

    def __init__(self, max_reads):
        super().__init__()
        self.max_reads = max_reads
        self.n = 0

    def event(self, name, n=1):
        if name == 'reads':
            self.n += 1
            if self.n > self.max_reads:
                self.violate('step-budget', self.n)


def within_budget(scripts, cache=None, limits=(1024, 1024, 128), max_reads=60000, contracts=None):
    """True if running the scripts one after the other (as run_auth_scripts does) needs at most max_reads tape reads"""
    m = BudgetMonitor(max_reads)
    with install_tape(m):
        try:
            F.run_auth_scripts([s for s in scripts if s] or [b'\x01'], dict(cache or {}), dict(contracts or {}), stack_max_items=limits[0],
                               stack_max_item_size=limits[1], callstack_limit=limits[2])
        except BaseException as e:  # noqa
            if isinstance(e, (KeyboardInterrupt, SystemExit)):
                raise
    return not m.tripped


# ===================================================================== VM
class MonDeque(deque):
    """Stack storage that checks the limits on every mutation."""

    def __init__(self, stack, **kw):
        super().__init__(**kw)
        self._s = stack
        self.hw = 0
        self.hw_item = 0

    def _item(self, x):
        m = _CUR[0]
        if m is None:
            return
        m.guard()
        if not isinstance(x, bytes):
            m.violate('non-bytes-item-on-stack', type(x).__name__)
        if len(x) > self._s.max_item_size:
            m.violate('item-over-max_item_size', '%d > %d' % (len(x), self._s.max_item_size))
        if len(x) > self.hw_item:
            self.hw_item = len(x)

    def append(self, x):
        m = _CUR[0]
        if m is not None:
            if self.maxlen is not None and len(self) >= self.maxlen:
                m.violate('append-to-full-deque-silent-drop', len(self))
            self._item(x)
        super().append(x)
        if len(self) > self.hw:
            self.hw = len(self)
        if m is not None and len(self) > self._s.max_items:
            m.violate('stack-over-max_items', len(self))

    def __setitem__(self, i, x):
        self._item(x)
        super().__setitem__(i, x)

    def appendleft(self, x):
        m = _CUR[0]
        if m is not None and self.maxlen is not None and len(self) >= self.maxlen:
            m.violate('appendleft-to-full-deque-silent-drop', len(self))
        self._item(x)
        super().appendleft(x)

    def extend(self, it):
        for x in it:
            self.append(x)

    def insert(self, i, x):
        self._item(x)
        super().insert(i, x)
        m = _CUR[0]
        if m is not None and len(self) > self._s.max_items:
            m.violate('stack-over-max_items', len(self))


class MonStack(Cl.Stack):
    def __init__(self, max_items=1024, max_item_size=1024):
        super().__init__(max_items=max_items, max_item_size=max_item_size)
        # the monitored storage keeps whatever bound the Stack under test gave its own storage
        self.deque = MonDeque(self, maxlen=getattr(self.deque, 'maxlen', self.max_items))


class VMTape(MonTape):
    """Tape for VM runs: reads of one run_tape activation are at
    non-decreasing offsets; loop resets are bounded by the limit."""

    def __setattr__(self, k, v):
        if k == 'pointer':
            m = _CUR[0]
            if m is not None and 'data' in self.__dict__:
                m.guard()
                if not isinstance(v, int) or v < 0 or v > len(self.__dict__['data']):
                    object.__setattr__(self, k, v)
                    m.violate('pointer-out-of-bounds', '%r (len %d)' % (v, len(self.__dict__['data'])))
        object.__setattr__(self, k, v)

    def read(self, size, move_pointer=True):
        m = _CUR[0]
        if m is not None:
            m.guard()
            if not isinstance(size, int) or size < 0:
                m.violate('negative-read', repr(size))
            fr = None
            for f in reversed(m.frames):
                if f[0] is self:
                    fr = f
                    break
            if fr is not None:
                if self.pointer < fr[1]:
                    m.violate('backward-read-within-activation', '%d after %d' % (self.pointer, fr[1]))
                fr[1] = self.pointer
            if self.pointer + size > len(self.data):
                m.event('limit:read-past-end')
        return Cl.Tape.read(self, size, move_pointer)

    def reset_pointer(self):
        m = _CUR[0]
        if m is not None:
            m.guard()
            n = self.__dict__.get('_resets', 0) + 1
            self.__dict__['_resets'] = n
            if n > self.callstack_limit:
                m.violate('loop-iterations-exceed-limit', '%d > %d' % (n, self.callstack_limit))
            for f in reversed(m.frames):
                if f[0] is self:
                    f[1] = 0
                    break
        Cl.Tape.reset_pointer(self)


class VMMonitor(Monitor):
    def __init__(self):
        super().__init__()
        self.frames = []
        self.chain = 0
        self.max_chain = 0
        self.pending_call = False
        self.activations = 0
        self.max_nesting = 0


class install_vm:
    """Bind the VM monitors: Tape, Stack, run_tape, OP_CALL / OP_EVAL."""

    def __init__(self, monitor):
        self.m = monitor

    def __enter__(self):
        m = self.m
        self.saved = dict(Tape=F.Tape, PTape=P.Tape, TTape=env.T.Tape, Stack=F.Stack, run_tape=F.run_tape,
                          cur=_CUR[0], ops={}, fns={})
        F.Tape = P.Tape = env.T.Tape = VMTape
        F.Stack = MonStack
        orig_run_tape = F.run_tape

        def mon_run_tape(tape, stack, cache, additional_flags={}):
            m.guard()
            is_call = m.pending_call
            m.pending_call = False
            m.frames.append([tape, tape.pointer])
            m.activations += 1
            if len(m.frames) > m.max_nesting:
                m.max_nesting = len(m.frames)
            if is_call:
                m.chain += 1
                if m.chain > m.max_chain:
                    m.max_chain = m.chain
                if m.chain > tape.callstack_limit:
                    m.frames.pop()
                    m.chain -= 1
                    m.violate('call-chain-deeper-than-limit', '%d > %d' % (m.chain + 1, tape.callstack_limit))
            if tape.callstack_count > tape.callstack_limit:
                m.frames.pop()
                if is_call:
                    m.chain -= 1
                m.violate('callstack_count-over-limit', '%d > %d' % (tape.callstack_count, tape.callstack_limit))
            try:
                return orig_run_tape(tape, stack, cache, additional_flags)
            finally:
                m.frames.pop()
                if is_call:
                    m.chain -= 1
        F.run_tape = mon_run_tape
        for name in ('OP_CALL', 'OP_EVAL'):
            fn = getattr(F, name)
            self.saved['fns'][name] = fn

            def w(tape, stack, cache, _fn=fn):
                m.pending_call = True
                try:
                    return _fn(tape, stack, cache)
                finally:
                    m.pending_call = False
            w.__name__ = name
            setattr(F, name, w)
            code = F.opcodes_inverse[name][0]
            self.saved['ops'][code] = (F.opcodes[code], F.opcodes_inverse[name])
            F.opcodes[code] = (name, w)
            F.opcodes_inverse[name] = (code, w)
        _CUR[0] = m
        return m

    def __exit__(self, *a):
        s = self.saved
        F.Tape, P.Tape, env.T.Tape, F.Stack, F.run_tape = s['Tape'], s['PTape'], s['TTape'], s['Stack'], s['run_tape']
        for name, fn in s['fns'].items():
            setattr(F, name, fn)
        for code, (oc, inv) in s['ops'].items():
            F.opcodes[code] = oc
            F.opcodes_inverse[oc[0]] = inv
        _CUR[0] = s['cur']
        return False
