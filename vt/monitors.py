"""Step monitors installed from the harness by rebinding module attributes."""
from __future__ import annotations
from collections import deque
from . import env

F, P, Cl = env.F, env.P, env.C


class MonitorAbort(BaseException):
    """Raised by a monitor after recording a violation, to end the case."""


class Monitor:
    """Shared violation log.  After the first violation every monitored
    operation aborts the case."""

    def __init__(self):
        self.violations = []
        self.tripped = False
        self.events = {}

    def violate(self, kind, detail=''):
        self.violations.append((kind, str(detail)[:300]))
        self.tripped = True
        raise MonitorAbort(kind)

    def guard(self):
        if self.tripped:
            raise MonitorAbort('aborted')

    def event(self, name, n=1):
        self.events[name] = self.events.get(name, 0) + n


_CUR = [None]   # the active Monitor


def current():
    return _CUR[0]


class MonTape(Cl.Tape):
    """Tape whose every read / pointer assignment is checked."""

    def __setattr__(self, k, v):
        if k == 'pointer':
            m = _CUR[0]
            if m is not None and 'data' in self.__dict__:
                m.guard()
                old = self.__dict__.get('pointer', 0)
                if not isinstance(v, int) or v < 0 or v > len(self.__dict__['data']):
                    object.__setattr__(self, k, v)
                    m.violate('pointer-out-of-bounds', '%r (len %d)' % (v, len(self.__dict__['data'])))
                if v < old and v != 0:
                    object.__setattr__(self, k, v)
                    m.violate('pointer-moved-backwards', '%d -> %d' % (old, v))
        object.__setattr__(self, k, v)

    def read(self, size, move_pointer=True):
        m = _CUR[0]
        if m is not None:
            m.guard()
            if not isinstance(size, int) or size < 0:
                m.violate('negative-read', repr(size))
            if self.pointer + size <= len(self.data):
                m.event('reads')
                if size:
                    m.event('operand_bytes', size)
            else:
                m.event('read-past-end-rejected')
        return super().read(size, move_pointer)


class install_tape:
    """with install_tape(monitor): ... binds MonTape into functions / parsing /
    tools so that every tape (and sub-tape) created there is monitored."""

    def __init__(self, monitor, cls=MonTape):
        self.m, self.cls = monitor, cls

    def __enter__(self):
        self.old = (F.Tape, P.Tape, env.T.Tape, _CUR[0])
        F.Tape = P.Tape = env.T.Tape = self.cls
        _CUR[0] = self.m
        return self.m

    def __exit__(self, *a):
        F.Tape, P.Tape, env.T.Tape, _CUR[0] = self.old
        return False
