"""Hypothesis strategies shared by the property modules."""
from __future__ import annotations
import struct
from hypothesis import strategies as st
from . import optable as O

C = O.CODES

u8 = st.one_of(st.sampled_from([0, 1, 2, 3, 127, 128, 254, 255]), st.integers(0, 255))
small_u8 = st.one_of(st.sampled_from([0, 1, 2, 3]), st.integers(0, 8))


def blob(lengths, fill=None):
    """bytes of a length drawn from `lengths` (a strategy); long values are
    expanded from a (pattern, length) pair so they stay cheap to draw."""
    @st.composite
    def _s(draw):
        n = draw(lengths)
        if n <= 48:
            return draw(st.binary(min_size=n, max_size=n))
        head = draw(st.binary(min_size=4, max_size=8))
        reps = n // len(head) + 1
        return (head * reps)[:n]
    return _s()


SMALL_LEN = st.one_of(st.sampled_from([1, 1, 2, 3, 4, 32]), st.integers(1, 40))
LV1_LEN = st.one_of(st.sampled_from([0, 1, 2, 4, 31, 32, 33, 64, 127, 128, 129, 254, 255]), st.integers(0, 255))
PUSH_LEN = st.one_of(SMALL_LEN, SMALL_LEN, SMALL_LEN,
                     st.sampled_from([127, 128, 129, 254, 255, 256, 257, 300, 1024]))
BIG_LEN = st.sampled_from([32767, 32768, 32769, 65535])

KEYS = st.one_of(st.sampled_from([b'P', b'E', b'x', b'X', b'a', b'ab', b'sa', b'IR', b'sigfield1', b'timestamp',
                                  b'returned', b'\x00', b'\x01']),
                 st.binary(min_size=0, max_size=4))
NAMES = st.sampled_from(['a', 'xy', 'Var1', 'P', 'E', 'x', 'sa', 'n0'])


def int_bytes(n):
    ln = 1
    while True:
        try:
            return n.to_bytes(ln, 'big', signed=True)
        except OverflowError:
            ln += 1


# both sides of every byte-length boundary of the signed encoding up to 17 bytes, and around 255 / 256 bytes
_INT_EDGES = [v for k in list(range(1, 18)) + [255, 256] for v in (2 ** (8 * k - 1) - 1, 2 ** (8 * k - 1), -2 ** (8 * k - 1), -2 ** (8 * k - 1) - 1)]
INT_VALS = st.one_of(
    st.sampled_from([0, 1, -1, 2, 127, 128, -128, -129, 255, 256, 32767, 32768, -32768, -32769, 65535, 65536,
                     2 ** 31 - 1, 2 ** 31, 2 ** 63, -2 ** 63, 2 ** 64]),
    st.sampled_from(_INT_EDGES),
    st.integers(-300, 300), st.integers(-2 ** 70, 2 ** 70))

FLOATS4 = st.one_of(
    st.sampled_from([struct.pack('!f', x) for x in (0.0, -0.0, 1.0, -1.0, 2.0, 0.5, 10.0, -3.0, 1e10, 3.4028234663852886e38,
                                                    1.401298464324817e-45, float('inf'), float('-inf'))] +
                    [bytes.fromhex('7fc00000'), bytes.fromhex('7fa00000'), bytes.fromhex('00000001'), bytes.fromhex('807fffff')]),
    st.binary(min_size=4, max_size=4))

NONE_OPS = [c for c in range(O.N_OPS) if O.shape_of(c) == 'none']
U8_OPS = [c for c in range(O.N_OPS) if O.shape_of(c) == 'u8']
LV1_OPS = [c for c in range(O.N_OPS) if O.shape_of(c) == 'lv1']


@st.composite
def plain_instr(draw, big=False):
    """A syntactically valid plain instruction (any op, boundary operands)."""
    kind = draw(st.sampled_from(['none', 'none', 'u8', 'u8', 'push', 'push', 'lv1', 'wc', 'f4', 'swap', 'cms',
                                 'h32', 'nop', 'push12']))
    if kind == 'none':
        return ['i', draw(st.sampled_from(NONE_OPS))]
    if kind == 'u8':
        return ['i', draw(st.sampled_from(U8_OPS)), draw(u8)]
    if kind == 'push':
        ln = draw(BIG_LEN) if (big and draw(st.integers(0, 30)) == 0) else draw(PUSH_LEN)
        return ['push', draw(blob(st.just(ln)))]
    if kind == 'push12':
        which = draw(st.sampled_from(['OP_PUSH0', 'OP_PUSH1', 'OP_PUSH1', 'OP_PUSH2']))
        if which == 'OP_PUSH0':
            return ['i', C[which], draw(u8)]
        if which == 'OP_PUSH1':
            return ['i', C[which], draw(blob(LV1_LEN))]
        ln = draw(st.one_of(st.sampled_from([0, 1, 2, 255, 256, 257, 700]), BIG_LEN if big else st.just(300)))
        return ['i', C[which], draw(blob(st.just(ln)))]
    if kind == 'lv1':
        code = draw(st.sampled_from([c for c in LV1_OPS if c != C['OP_PUSH1']]))
        if code in (C['OP_DIV_INT'], C['OP_MOD_INT']):
            v = draw(st.one_of(INT_VALS.map(int_bytes), st.binary(min_size=0, max_size=4)))
        elif code in (C['OP_SET_FLAG'], C['OP_UNSET_FLAG']):
            v = draw(st.one_of(st.integers(0, 12).map(lambda n: bytes([n])), st.sampled_from([b'ts_threshold', b'']),
                               st.binary(max_size=3)))
        elif code == C['OP_GET_VALUE']:
            v = draw(st.sampled_from([b'timestamp', b'sigfield1', b'sigfield8', b'a b', b'x', b'']))
        else:
            v = draw(st.one_of(KEYS, blob(LV1_LEN)))
        return ['i', code, v]
    if kind == 'wc':
        return ['i', C['OP_WRITE_CACHE'], draw(st.one_of(KEYS, blob(LV1_LEN))), draw(u8)]
    if kind == 'f4':
        return ['i', draw(st.sampled_from([C['OP_DIV_FLOAT'], C['OP_MOD_FLOAT']])), draw(FLOATS4)]
    if kind == 'swap':
        return ['i', C['OP_SWAP'], draw(u8), draw(u8)]
    if kind == 'cms':
        return ['i', draw(st.sampled_from([C['OP_CHECK_MULTISIG'], C['OP_CHECK_MULTISIG_VERIFY']])),
                draw(u8), draw(u8), draw(u8)]
    if kind == 'h32':
        return ['i', C['OP_MERKLEVAL'], draw(st.binary(min_size=32, max_size=32))]
    return ['i', draw(st.integers(O.N_OPS, 255)), draw(u8)]


@st.composite
def sugar_stmt(draw, depth):
    kind = draw(st.sampled_from(['varset', 'varsetn', 'varload', 'varsize', 'macro', 'comptime', 'comptime_exec',
                                 'pushd', 'pushs']))
    if kind == 'varset':
        return ['varset', draw(NAMES), draw(st.lists(blob(SMALL_LEN), max_size=3))]
    if kind == 'varsetn':
        return ['varsetn', draw(NAMES), draw(st.integers(0, 9))]
    if kind == 'varload':
        return ['varload', draw(NAMES)]
    if kind == 'varsize':
        return ['varsize', draw(NAMES)]
    if kind == 'macro':
        return ['macro', draw(st.sampled_from(['foo', 'bar2'])), draw(blob(SMALL_LEN)), draw(st.integers(0, 127))]
    if kind == 'comptime':
        body = draw(st.lists(plain_instr(), min_size=1, max_size=3))
        return ['comptime', body]
    if kind == 'comptime_exec':
        return ['comptime_exec', draw(blob(SMALL_LEN))]
    if kind == 'pushd':
        return ['push', int_bytes(draw(INT_VALS))]
    return ['push', draw(st.sampled_from(['hello', 'hello world', 'a#b', 'Ünï', 'x', 'it is', 'END_IF', '{'])).encode()]


def source_tree(max_depth=4, sugar=True, big=False, in_def=False, max_len=5):
    """Strategy for source trees (lists of statements)."""
    def stmts(depth, in_def):
        @st.composite
        def _one(draw):
            r = draw(st.integers(0, 99))
            if depth < max_depth and r < 28:
                kinds = ['if', 'if', 'ife', 'try', 'loop'] + ([] if in_def else ['def'])
                k = draw(st.sampled_from(kinds))
                sub = stmts(depth + 1, in_def or k == 'def')
                if k == 'if':
                    h = draw(st.one_of(st.none(), st.none(), stmts(max_depth, in_def)))
                    return ['if', draw(sub)] + ([h] if h else [])
                if k == 'ife':
                    h = draw(st.one_of(st.none(), st.none(), st.none(), stmts(max_depth, in_def)))
                    return ['ife', draw(sub), draw(sub)] + ([h] if h else [])
                if k == 'try':
                    return ['try', draw(sub), draw(st.one_of(st.just([]), sub))]
                if k == 'loop':
                    return ['loop', draw(sub)]
                return ['def', draw(u8), draw(sub)]
            if sugar and r < 45:
                return draw(sugar_stmt(depth))
            return draw(plain_instr(big=big))
        return st.lists(_one(), min_size=0, max_size=max_len)
    return stmts(0, in_def)


SPELLING = st.one_of(st.just([0]), st.lists(st.integers(0, 2 ** 16), min_size=1, max_size=24))


def dict_order(draw, d):
    """The same mapping with its keys inserted in a drawn order: the order in which a caller filled its sigfield dict is
    not part of any message (instructions read sigfield1..8 by name)."""
    keys = list(d)
    if len(keys) < 2 or draw(st.integers(0, 2)) == 0:
        return d
    return {k: d[k] for k in draw(st.permutations(keys))}
