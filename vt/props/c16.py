"""C16 - time constraints accept exactly their documented window."""
from __future__ import annotations
from .. import env, hyp, optable as O
from hypothesis import strategies as st

F, T = env.F, env.T
C = O.CODES
ID = 'C16'
LEVEL = 'exploration'
RULE = ('complete grid of (t, now, c, threshold) with t-c in -2..2, (t-now)-threshold in -2..2, threshold in '
        '{-1,0,1,2,60,2^31}, c in {0,1,255,256,2^31-1,2^32,2^63-1,1.7e9}, fractional and integral clocks, constraint '
        'encodings of minimal / padded / 9-byte length, for CHECK_TIMESTAMP(_VERIFY) and CHECK_EPOCH(_VERIFY) through '
        'run_script with the clock pinned; the three lock builders (op_verify on/off) through run_auth_scripts on a '
        'grid of ts / t / slack thresholds x window widths 50, 1, 0 (empty), -1, -50 (begin > end: nothing is inside); Hypothesis 63-bit quadruples. Oracle: the formulas of the property '
        'statement. non-trivial = within +-2 of a boundary (constraint or slack); distinct = the tuple incl. encoding.')
ASSUMPTIONS = ['verifier clock pinned through functions.time / tools.time; now = int(clock); clocks are non-negative',
               'CHECK_EPOCH with a negative threshold is an error by documentation and is not compared',
               'the between lock is judged as begin <= t < end within slack: its lower bound is an after-constraint, for which the '
               'statement names the slack, and rejecting a timestamp the verifier does not trust is the safe direction; only the '
               'before lock ACCEPTING an untrusted t >= ts is reported (known finding D14)']

TRUE, FALSE = [b'\xff'], [b'\x00']


def _push(v):
    return bytes([C['OP_PUSH1'], len(v)]) + v if len(v) != 1 else bytes([C['OP_PUSH0']]) + v


def _run(code, t, flags):
    try:
        _, s, _ = F.run_script(code, {'timestamp': t}, additional_flags=flags)
        return s.list()
    except env.SEE:
        return 'SEE'
    except BaseException as e:  # noqa
        return 'ERR:' + type(e).__name__


def _encodings(c):
    ml = max(1, (c.bit_length() + 7) // 8)
    out = [c.to_bytes(ml, 'big')]
    out.append(c.to_bytes(ml + 1, 'big'))
    if ml + 1 < 9:
        out.append(c.to_bytes(9, 'big'))
    return out


def check_instr(op, t, now, frac, c_enc, thr):
    """op in ts, tsv, ep, epv."""
    c = int.from_bytes(c_enc, 'big')
    env.pin_clock(now + frac if (frac and now < 2 ** 32) else now)
    try:
        if op in ('ts', 'tsv'):
            exp = t >= c and (thr <= 0 or t - now < thr)
            code = _push(c_enc) + bytes([C['OP_CHECK_TIMESTAMP' if op == 'ts' else 'OP_CHECK_TIMESTAMP_VERIFY']])
            flags = {'ts_threshold': thr}
        else:
            if thr < 0:
                raise ValueError('domain')
            exp = c - now < thr
            code = _push(c_enc) + bytes([C['OP_CHECK_EPOCH' if op == 'ep' else 'OP_CHECK_EPOCH_VERIFY']])
            flags = {'epoch_threshold': thr}
        if op in ('tsv', 'epv'):
            code += bytes([C['OP_TRUE']])
            want = TRUE if exp else 'SEE'
        else:
            want = TRUE if exp else FALSE
        got = _run(code, t, flags)
    finally:
        env.unpin_clock()
    if got != want:
        kind = 'accepts-outside-window' if (not exp and got == TRUE) else ('rejects-inside-window' if exp else 'wrong-failure-mode')
        return [('instr/%s/%s' % (op, kind), 't=%d now=%d+%s c=%d(%dB) thr=%d -> %r expected %r' % (
            t, now, frac, c, len(c_enc), thr, got, want))]
    return []


def check_lock(kind, verify, ts, ts2, t, now, frac, thr):
    within = thr <= 0 or t - now < thr
    env.pin_clock(now + frac if (frac and now < 2 ** 32) else now)
    old = F.flags['ts_threshold']
    F.flags['ts_threshold'] = thr
    try:
        if kind == 'after':
            lock, exp = T.make_timestamp_after_lock(ts, verify), t >= ts and within
        elif kind == 'before':
            lock, exp = T.make_timestamp_before_lock(ts, verify), t < ts
        else:
            lock, exp = T.make_timestamp_between_lock(ts, ts2, verify), ts <= t < ts2 and within
        scripts = ([bytes([C['OP_TRUE']])] if verify else []) + [bytes(lock)]
        got = F.run_auth_scripts(scripts, {'timestamp': t})
    finally:
        F.flags['ts_threshold'] = old
        env.unpin_clock()
    if got is not exp:
        if kind == 'before' and got is True and t >= ts and not within:
            sig = 'lock/before-accepts-t>=ts-beyond-slack'
        else:
            sig = 'lock/%s/%s' % (kind, 'accepts-outside-window' if got else 'rejects-inside-window')
        return [(sig, 'verify=%s ts=%d ts2=%d t=%d now=%d+%s thr=%d -> %r expected %r' % (
            verify, ts, ts2, t, now, frac, thr, got, exp))]
    return []


def check_malformed(which):
    """Documented error cases: empty constraint, non-int timestamp, non-int threshold flag."""
    env.pin_clock(1000)
    try:
        if which == 'empty-constraint':
            got = _run(bytes([C['OP_PUSH1'], 0, C['OP_CHECK_TIMESTAMP']]), 1000, {})
            got2 = _run(bytes([C['OP_PUSH1'], 0, C['OP_CHECK_EPOCH']]), 1000, {})
        elif which == 'non-int-timestamp':
            try:
                F.run_script(_push(b'\x01') + bytes([C['OP_CHECK_TIMESTAMP']]), {'timestamp': '1000'})
                got = 'no error'
            except env.SEE:
                got = 'SEE'
            except BaseException as e:  # noqa
                got = 'ERR:' + type(e).__name__
            got2 = 'SEE'
        else:
            got = _run(_push(b'\x01') + bytes([C['OP_CHECK_TIMESTAMP']]), 1000, {'ts_threshold': 1.5})
            got2 = _run(_push(b'\x01') + bytes([C['OP_CHECK_EPOCH']]), 1000, {'epoch_threshold': '60'})
    finally:
        env.unpin_clock()
    if got != 'SEE' or got2 != 'SEE':
        return [('malformed/%s-not-an-error' % which, '%r %r' % (got, got2))]
    return []


def check_case(case):
    k = case['check']
    if k == 'instr':
        for key in ('t', 'now', 'thr'):
            if not isinstance(case[key], int):
                raise ValueError('shape')
        if case['t'] < 0 or case['now'] < 0 or not case['c_enc'] or case['op'] not in ('ts', 'tsv', 'ep', 'epv'):
            raise ValueError('domain')
        return check_instr(case['op'], case['t'], case['now'], case['frac'], case['c_enc'], case['thr'])
    if k == 'lock':
        if min(case['ts'], case['ts2'], case['t'], case['now']) < 0 or case['kind'] not in ('after', 'before', 'between'):
            raise ValueError('domain')
        return check_lock(case['kind'], bool(case['verify']), case['ts'], case['ts2'], case['t'], case['now'],
                          case['frac'], case['thr'])
    if k == 'malformed':
        return check_malformed(case['which'])
    raise ValueError(k)


def _do_instr(ctx, op, t, now, frac, c_enc, thr, nt, sample=False):
    try:
        fails = check_instr(op, t, now, frac, c_enc, thr)
    except ValueError:
        return
    key = (op, t, now, frac, c_enc, thr)
    ctx.case(key, nt)
    ctx.count('instr:' + op)
    for s, d in fails:
        ctx.fail('instr', s, {'check': 'instr', 'op': op, 't': t, 'now': now, 'frac': frac, 'c_enc': c_enc, 'thr': thr}, d)
    if sample:
        ctx.sample({'check': 'instr', 'op': op, 't': t, 'now': now, 'frac': frac, 'c_enc': c_enc, 'thr': thr})


CS = (0, 1, 255, 256, 2 ** 31 - 1, 2 ** 32, 2 ** 63 - 1, 1_700_000_000, 65535, 65536)
THRS = (-1, 0, 1, 2, 60, 2 ** 31)


def task_grid(ctx):
    items = [(c, thr) for c in CS for thr in THRS]
    n = 0
    for i, (c, thr) in enumerate(items):
        if i % ctx.nshards != ctx.shard:
            continue
        for dt in range(-2, 3):
            for dn in range(-2, 3):
                t = c + dt
                now = t - thr - dn
                if t < 0 or now < 0:
                    continue
                for frac in (0.0, 0.999):
                    for enc in _encodings(c):
                        for op in ('ts', 'tsv', 'ep', 'epv'):
                            _do_instr(ctx, op, t, now, frac, enc, thr, True, sample=(dt == 0 and dn == 0 and frac and op == 'ts'))
                            n += 1
        # epoch boundary: c - now - thr in -2..2 (independent of t)
        if thr >= 0:
            for de in range(-2, 3):
                now = c - thr - de
                if now < 0:
                    continue
                for enc in _encodings(c):
                    for op in ('ep', 'epv'):
                        _do_instr(ctx, op, now, now, 0.5, enc, thr, True)
                        n += 1
    ctx.exhaustive['instruction grid points (c x thr x dt x dn x frac x encoding x 4 ops)'] = n
    if ctx.shard == 0:
        for w in ('empty-constraint', 'non-int-timestamp', 'non-int-flag'):
            for s, d in check_malformed(w):
                ctx.fail('malformed', s, {'check': 'malformed', 'which': w}, d)
            ctx.case(('malformed', w), True)


def _do_lock(ctx, kind, verify, ts, ts2, t, now, frac, thr, nt, sample=False):
    fails = check_lock(kind, verify, ts, ts2, t, now, frac, thr)
    ctx.case((kind, verify, ts, ts2, t, now, frac, thr), nt)
    ctx.count('lock:' + kind)
    for s, d in fails:
        ctx.fail('lock', s, {'check': 'lock', 'kind': kind, 'verify': verify, 'ts': ts, 'ts2': ts2, 't': t, 'now': now,
                             'frac': frac, 'thr': thr}, d)
    if sample:
        ctx.sample({'check': 'lock', 'kind': kind, 'verify': verify, 'ts': ts, 'ts2': ts2, 't': t, 'now': now, 'thr': thr})


def task_locks(ctx):
    NOW = 1_700_000_000
    combos = [(thr, off) for thr in (0, 1, 60, 120) for off in (-100, 0, 10, 59, 60, 100, 1000)]
    n = 0
    for i, (thr, off) in enumerate(combos):
        if i % ctx.nshards != ctx.shard:
            continue
        ts = NOW + off
        # the window [ts, ts2): 50 long, one second, empty, and inverted (begin > end: no t is inside)
        for width in (50, 1, 0, -1, -50):
            ts2 = ts + width
            pts = {ts - 2, ts - 1, ts, ts + 1, ts + 2, ts2 - 2, ts2 - 1, ts2, ts2 + 1,
                   NOW + thr - 2, NOW + thr - 1, NOW + thr, NOW + thr + 1, NOW + 1000, NOW - 1000}
            for t in sorted(pts):
                for verify in (False, True):
                    for frac in (0.0, 0.5):
                        for kind in (('after', 'before', 'between') if width == 50 else ('between',)):
                            _do_lock(ctx, kind, verify, ts, ts2, t, NOW, frac, thr, True,
                                     sample=(t == ts and verify and kind == 'between' and not frac and width == 50))
                            if width <= 0:
                                ctx.count('lock:between with an empty or inverted window')
                            n += 1
    ctx.exhaustive['lock grid points'] = n


def task_random(ctx):
    big = st.one_of(st.integers(0, 2 ** 63 - 1), st.integers(0, 2 ** 32), st.integers(1_600_000_000, 1_800_000_000))
    delta = st.one_of(st.integers(-3, 3), st.integers(-1000, 1000), st.integers(-2 ** 40, 2 ** 40))

    @st.composite
    def quad(draw):
        c = draw(big)
        t = max(0, c + draw(delta))
        thr = draw(st.one_of(st.sampled_from(THRS), st.integers(-5, 200), st.integers(0, 2 ** 40)))
        now = max(0, t - thr + draw(delta))
        frac = draw(st.sampled_from([0.0, 0.25, 0.999]))
        ml = max(1, (c.bit_length() + 7) // 8)
        pad = draw(st.integers(0, 3))
        op = draw(st.sampled_from(['ts', 'tsv', 'ep', 'epv']))
        if op in ('ep', 'epv') and draw(st.booleans()):
            now = max(0, c - thr + draw(st.integers(-3, 3)))
        return op, t, now, frac, c.to_bytes(ml + pad, 'big'), thr

    def one(q):
        op, t, now, frac, enc, thr = q
        c = int.from_bytes(enc, 'big')
        nt = abs(t - c) <= 2 or abs(t - now - thr) <= 2 or abs(c - now - thr) <= 2
        _do_instr(ctx, op, t, now, frac, enc, thr, nt, sample=nt)
    hyp.drive(quad(), one, ctx.n(40000, 1500000), ctx.seed)

    @st.composite
    def lk(draw):
        now = draw(st.integers(1_000_000, 2 ** 40))
        thr = draw(st.sampled_from([0, 1, 2, 60, 120, 3600]))
        ts = max(0, now + draw(st.integers(-5000, 5000)))
        ts2 = max(0, ts + draw(st.one_of(st.integers(0, 200), st.integers(-200, 200))))
        t = max(0, draw(st.sampled_from([ts, ts2, now + thr])) + draw(st.integers(-3, 3)))
        return (draw(st.sampled_from(['after', 'before', 'between'])), draw(st.booleans()), ts, ts2, t, now,
                draw(st.sampled_from([0.0, 0.5])), thr)

    def onel(q):
        kind, verify, ts, ts2, t, now, frac, thr = q
        nt = min(abs(t - ts), abs(t - ts2), abs(t - now - thr)) <= 2
        _do_lock(ctx, kind, verify, ts, ts2, t, now, frac, thr, nt)
    hyp.drive(lk(), onel, ctx.n(6000, 300000), ctx.seed + 1)


TASKS = {
    'grid': (task_grid, 12, 16),
    'locks': (task_locks, 4, 8),
    'random': (task_random, 12, 16),
}
