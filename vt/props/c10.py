"""C10 - integer and float encodings are exact inverses at every magnitude."""
from __future__ import annotations
import math
import struct
from .. import env, hyp, optable as O
from hypothesis import strategies as st

F = env.F
ID = 'C10'
LEVEL = 'exploration'
RULE = ('complete enumeration of the integers in [-2^17, 2^17], of 2^k + d (k = 1..16384, |d| <= 3, both signs), of '
        '2^k - 1 / -(2^k) patterns, of all 1- and 2-byte strings and of 512 sign x exponent float classes x fixed + '
        'drawn mantissas; Hypothesis integers up to 8192 bits biased to byte boundaries and >= 2^53, random strings '
        '<= 1024 bytes, random float32 patterns; instruction level ADD/SUBTRACT/MULT/DIV/MOD_INTS, DIV_INT, MOD_INT, '
        'LESS, LESS_OR_EQUAL through run_script with stack_max_item_size 4096. Oracle: int.to_bytes/from_bytes(signed) '
        'and a hand-written IEEE-754 binary32 decoder. non-trivial = |n| >= 2^53, or within +-3 of a power of two, or '
        'a non-finite / subnormal float, or an operand >= 2^53 at instruction level; distinct = the value / bytes.'
        ' Operands carry 0-3 redundant sign bytes; every op case runs again under the tightest item limit that holds operands and result.')
ASSUMPTIONS = ['Python int.to_bytes / from_bytes(signed=True) is the reference integer codec',
               'signalling-NaN payloads may be quieted by the platform (only NaN-ness and the remaining payload are required)']

C = O.CODES


def ref_dec_int(b):
    return int.from_bytes(b, 'big', signed=True)


def _nt_int(n):
    a = abs(n)
    if a >= 2 ** 53:
        return True
    for d in range(-3, 4):
        x = a + d
        if x > 0 and x & (x - 1) == 0:
            return True
    return False


def check_int(n):
    fails = []
    try:
        b = F.int_to_bytes(n)
    except BaseException as e:  # noqa
        return [('int/encode-raises', '%s for bit length %d: %r' % (type(e).__name__, n.bit_length(), e))]
    if not isinstance(b, bytes) or len(b) == 0:
        return [('int/encode-not-bytes', repr(b)[:80])]
    if (b[0] >> 7) != (1 if n < 0 else 0):
        fails.append(('int/sign-bit', 'n bits=%d sign=%d first byte %02x' % (n.bit_length(), n < 0, b[0])))
    if ref_dec_int(b) != n:
        fails.append(('int/encoding-not-twos-complement', 'n bits=%d len=%d' % (n.bit_length(), len(b))))
    try:
        back = F.bytes_to_int(b)
        if back != n:
            fails.append(('int/roundtrip', 'n bits=%d' % n.bit_length()))
    except BaseException as e:  # noqa
        fails.append(('int/decode-raises', repr(e)[:100]))
    return fails


def check_dec(b):
    try:
        v = F.bytes_to_int(b)
    except BaseException as e:  # noqa
        return [('dec/raises', '%s on %s' % (type(e).__name__, b[:16].hex()))]
    if v != ref_dec_int(b):
        return [('dec/value', '%s -> %d' % (b[:16].hex(), v))]
    return []


def ref_f32(p):
    """IEEE-754 binary32 pattern -> python float (exact) or 'nan'."""
    s = -1.0 if p >> 31 else 1.0
    e = (p >> 23) & 0xff
    m = p & 0x7fffff
    if e == 255:
        return 'nan' if m else s * math.inf
    if e == 0:
        return s * math.ldexp(m, -149)
    return s * math.ldexp(m | 0x800000, e - 150)


def _same_float(x, r):
    if r == 'nan':
        return isinstance(x, float) and x != x
    return isinstance(x, float) and x == r and math.copysign(1.0, x) == math.copysign(1.0, r)


def check_f32(p):
    b = p.to_bytes(4, 'big')
    r = ref_f32(p)
    fails = []
    try:
        x = F.bytes_to_float(b)
    except BaseException as e:  # noqa
        return [('f32/decode-raises', '%s on %s' % (type(e).__name__, b.hex()))]
    if not _same_float(x, r):
        fails.append(('f32/decode-value', '%s -> %r expected %r' % (b.hex(), x, r)))
        return fails
    try:
        b2 = F.float_to_bytes(x)
    except BaseException as e:  # noqa
        return [('f32/encode-raises', '%s on %r' % (type(e).__name__, x))]
    if b2 != b:
        snan = r == 'nan' and not (p & 0x400000)
        if not (snan and b2 == (p | 0x400000).to_bytes(4, 'big')):
            fails.append(('f32/roundtrip', '%s -> %r -> %s' % (b.hex(), x, b2.hex() if isinstance(b2, bytes) else b2)))
    if r != 'nan':
        try:
            b3 = F.float_to_bytes(r)
            if b3 != b:
                fails.append(('f32/encode-of-representable', '%r -> %s expected %s' % (r, b3.hex(), b.hex())))
            elif not _same_float(F.bytes_to_float(b3), r):
                fails.append(('f32/encode-decode', repr(r)))
        except BaseException as e:  # noqa
            fails.append(('f32/encode-raises', '%s on %r' % (type(e).__name__, r)))
    return fails


OPS = ['ADD', 'SUB', 'MULT', 'DIV', 'MOD', 'DIV_INT', 'MOD_INT', 'LESS', 'LEQ', 'ADD3']


def _push(v):
    if len(v) == 1:
        return bytes([C['OP_PUSH0']]) + v
    if len(v) < 256:
        return bytes([C['OP_PUSH1'], len(v)]) + v
    return bytes([C['OP_PUSH2']]) + len(v).to_bytes(2, 'big') + v


def _enc(n):
    ln = max(1, (n.bit_length() + 8) // 8) if n >= 0 else max(1, ((-n - 1).bit_length() + 8) // 8)
    return n.to_bytes(ln, 'big', signed=True)


def _pad(e, k):
    """the same integer with k redundant sign bytes in front (decoding is total: every encoding of n is n)"""
    return (b'\xff' if e[0] & 0x80 else b'\x00') * k + e


def check_op(op, a, b, c=0, pa=0, pb=0):
    """a is pushed first (second from top), b is the top."""
    ea, eb = _pad(_enc(a), pa), _pad(_enc(b), pb)
    if op in ('DIV', 'MOD', 'DIV_INT', 'MOD_INT') and (a <= 0 or b < 0):
        raise ValueError('domain')
    if op == 'ADD':
        sc, exp = _push(ea) + _push(eb) + bytes([C['OP_ADD_INTS'], 2]), a + b
    elif op == 'ADD3':
        sc, exp = _push(_enc(c)) + _push(ea) + _push(eb) + bytes([C['OP_ADD_INTS'], 3]), a + b + c
    elif op == 'SUB':
        sc, exp = _push(ea) + _push(eb) + bytes([C['OP_SUBTRACT_INTS'], 2]), b - a
    elif op == 'MULT':
        sc, exp = _push(ea) + _push(eb) + bytes([C['OP_MULT_INTS'], 2]), a * b
    elif op == 'DIV':
        sc, exp = _push(ea) + _push(eb) + bytes([C['OP_DIV_INTS']]), b // a
    elif op == 'MOD':
        sc, exp = _push(ea) + _push(eb) + bytes([C['OP_MOD_INTS']]), b % a
    elif op == 'DIV_INT':
        if len(ea) > 255:
            raise ValueError('domain')
        sc, exp = _push(eb) + bytes([C['OP_DIV_INT'], len(ea)]) + ea, b // a
    elif op == 'MOD_INT':
        if len(ea) > 255:
            raise ValueError('domain')
        sc, exp = _push(eb) + bytes([C['OP_MOD_INT'], len(ea)]) + ea, b % a
    elif op == 'LESS':
        sc, exp = _push(ea) + _push(eb) + bytes([C['OP_LESS']]), b < a
    elif op == 'LEQ':
        sc, exp = _push(ea) + _push(eb) + bytes([C['OP_LESS_OR_EQUAL']]), b <= a
    else:
        raise ValueError('op')
    if isinstance(exp, int) and not isinstance(exp, bool) and (exp.bit_length() + 8) // 8 > 4096:
        raise ValueError('domain')
    try:
        _, stack, _ = F.run_script(sc, stack_max_item_size=4096)
        items = stack.list()
    except BaseException as e:  # noqa
        return [('op/%s-raises' % op, '%s: %r' % (type(e).__name__, str(e)[:80]))]
    if len(items) != 1:
        return [('op/%s-stack-shape' % op, '%d items' % len(items))]
    r = items[0]
    if isinstance(exp, bool):
        if r != (b'\xff' if exp else b'\x00'):
            return [('op/%s-value' % op, 'a bits %d b bits %d -> %s' % (a.bit_length(), b.bit_length(), r.hex()))]
        return []
    if len(r) == 0 or ref_dec_int(r) != exp or (r[0] >> 7) != (1 if exp < 0 else 0):
        return [('op/%s-value' % op, 'a bits %d b bits %d -> %s..' % (a.bit_length(), b.bit_length(), r[:12].hex()))]
    # "at any magnitude that fits the item limit": the same again under the tightest limit that holds every operand and the
    # result (operands that are wide while the result is not: x * 0, x * 1, 2^k * 2^k, x - x, ...)
    tight = max(len(ea), len(eb), len(_enc(c)) if op == 'ADD3' else 1, len(_enc(exp)))
    try:
        _, stack, _ = F.run_script(sc, stack_max_item_size=tight)
        if stack.list() != items:
            return [('op/%s-value-under-the-tightest-fitting-item-limit' % op, 'limit %d' % tight)]
    except BaseException as e:  # noqa
        return [('op/%s-raises-under-the-tightest-fitting-item-limit' % op, 'limit %d: %s: %r' % (tight, type(e).__name__, str(e)[:60]))]
    return []


def check_case(case):
    k = case['check']
    if k == 'int':
        return check_int(case['n'])
    if k == 'dec':
        if not case['b']:
            raise ValueError('empty')
        return check_dec(case['b'])
    if k == 'f32':
        return check_f32(case['p'] & 0xffffffff)
    if k == 'op':
        return check_op(case['op'], case['a'], case['b'], case.get('c', 0), case.get('pa', 0) % 5, case.get('pb', 0) % 5)
    raise ValueError(k)


def _do_int(ctx, n, sample=False):
    fails = check_int(n)
    ctx.case(n, _nt_int(n))
    for s, d in fails:
        ctx.fail('int', s, {'check': 'int', 'n': n}, d)
    if sample:
        ctx.sample({'check': 'int', 'n_bits': n.bit_length(), 'n': n if abs(n) < 2 ** 80 else hex(n)[:30] + '..'})


def task_small(ctx):
    lo, hi = -2 ** 17, 2 ** 17
    span = hi - lo + 1
    a = lo + span * ctx.shard // ctx.nshards
    b = lo + span * (ctx.shard + 1) // ctx.nshards
    for n in range(a, b):
        _do_int(ctx, n, sample=(n == a + 77))
    ctx.exhaustive['ints[-2^17,2^17]'] = b - a
    # all 1- and 2-byte strings
    cnt = 0
    for x in range(ctx.shard, 256, ctx.nshards):
        bs = [bytes([x])] + [bytes([x, y]) for y in range(256)]
        for s in bs:
            fails = check_dec(s)
            ctx.case(s, s[0] in (0x00, 0xff, 0x7f, 0x80))
            cnt += 1
            for sg, d in fails:
                ctx.fail('dec', sg, {'check': 'dec', 'b': s}, d)
    ctx.exhaustive['all 1- and 2-byte strings (decode)'] = cnt


def task_pow2(ctx):
    cnt = 0
    for k in range(1 + ctx.shard, 16385, ctx.nshards):
        p = 1 << k
        for d in range(-3, 4):
            for s in (1, -1):
                _do_int(ctx, s * (p + d), sample=(k == 4097 and d == 1))
                cnt += 1
    ctx.exhaustive['2^k+d, k<=16384, |d|<=3, both signs'] = cnt


def task_random(ctx):
    bits = st.one_of(st.integers(1, 8192), st.sampled_from([52, 53, 54, 63, 64, 65, 127, 128, 1023, 1024, 1025, 8191, 8192]),
                     st.integers(1, 128).map(lambda k: 8 * k), st.integers(1, 128).map(lambda k: 8 * k - 1))

    @st.composite
    def bigint(draw):
        nb = draw(bits)
        kind = draw(st.integers(0, 5))
        if kind == 0:
            n = (1 << nb) - 1
        elif kind == 1:
            n = 1 << (nb - 1)
        elif kind == 2:
            n = (1 << nb) - draw(st.integers(1, 300))
        else:
            seedv = draw(st.integers(0, 2 ** 64 - 1))
            # expand deterministically to nb bits
            import hashlib
            raw = hashlib.shake_256(seedv.to_bytes(8, 'big')).digest((nb + 7) // 8)
            n = int.from_bytes(raw, 'big') >> ((8 - nb % 8) % 8)
            n |= 1 << (nb - 1)
        return -n if draw(st.booleans()) else n
    hyp.drive(bigint(), lambda n: _do_int(ctx, n, sample=True), ctx.n(120000, 3000000), ctx.seed)

    def dec(b):
        fails = check_dec(b)
        ctx.case(b, len(b) > 8)
        for sg, d in fails:
            ctx.fail('dec', sg, {'check': 'dec', 'b': b}, d)
    hyp.drive(st.binary(min_size=1, max_size=1024), dec, ctx.n(40000, 600000), ctx.seed + 1)

    def op(t):
        o, a, b, c, pa, pb = t
        try:
            fails = check_op(o, a, b, c, pa, pb)
        except ValueError:
            ctx.count('op:out-of-domain')
            return
        ctx.case(('op', o, a, b, c), max(abs(a), abs(b)) >= 2 ** 53)
        ctx.count('op:' + o)
        if pa or pb:
            ctx.count('op:operand with redundant sign bytes')
        for sg, d in fails:
            ctx.fail('op', sg, {'check': 'op', 'op': o, 'a': a, 'b': b, 'c': c, 'pa': pa, 'pb': pb}, d)
        if abs(a) > 2 ** 64:
            ctx.sample({'check': 'op', 'op': o, 'a_bits': a.bit_length(), 'b_bits': b.bit_length()})
    small = st.one_of(st.integers(-300, 300), st.sampled_from([2 ** 53, 2 ** 63, 2 ** 64 - 1, -2 ** 63, 2 ** 127]))
    padn = st.sampled_from([0, 0, 0, 1, 2, 3])
    hyp.drive(st.tuples(st.sampled_from(OPS), st.one_of(bigint(), small), st.one_of(bigint(), small), small, padn, padn),
              op, ctx.n(40000, 800000), ctx.seed + 2)


def task_floats(ctx):
    import hashlib
    cnt = 0
    for cls in range(ctx.shard, 512, ctx.nshards):
        s, e = cls >> 8, cls & 0xff
        mants = [0, 1, 2, 1 << 22, (1 << 22) + 1, (1 << 23) - 1, (1 << 23) - 2, 0x2aaaaa, 0x555555]
        h = hashlib.shake_256(b'c10f%d:%d' % (ctx.base_seed, cls)).digest(4 * (40 if not ctx.thorough() else 2000))
        mants += [int.from_bytes(h[i:i + 4], 'big') & 0x7fffff for i in range(0, len(h), 4)]
        for m in mants:
            p = (s << 31) | (e << 23) | m
            fails = check_f32(p)
            ctx.case(('f', p), e in (0, 255))
            cnt += 1
            for sg, d in fails:
                ctx.fail('f32', sg, {'check': 'f32', 'p': p}, d)
            if e in (0, 255) and m in (1, 0x2aaaaa):
                ctx.sample({'check': 'f32', 'pattern': '%08x' % p, 'value': repr(ref_f32(p))})
    ctx.count('float-classes', len(range(ctx.shard, 512, ctx.nshards)))
    ctx.exhaustive['float sign x exponent classes (each with fixed + drawn mantissas)'] = len(range(ctx.shard, 512, ctx.nshards))
    if ctx.shard == 0:
        # 2^k - 1 and -(2^k) patterns
        for k in range(1, 2000):
            _do_int(ctx, (1 << k) - 1)
            _do_int(ctx, -((1 << k) - 1))
            _do_int(ctx, -(1 << k))


TASKS = {
    'small': (task_small, 16, 16),
    'pow2': (task_pow2, 16, 16),
    'random': (task_random, 12, 16),
    'floats': (task_floats, 4, 16),
}
