"""C18 - anonymous multi-hop locks: consistent setup and right-to-left release cascade."""
from __future__ import annotations
import hashlib
import hypothesis
from hypothesis import settings, strategies as st, HealthCheck, Phase
from hypothesis.stateful import RuleBasedStateMachine, rule, initialize, run_state_machine_as_test
from .. import env, optable as O, ed25519_ref as E
from ..recorder import push
from .c02 import msg_of

F, T, A = env.F, env.T, env.A
C = O.CODES
L = E.L
ID = 'C18'
LEVEL = 'exploration'
RULE = ('Hypothesis rule-based state machines: initialisation draws the AMHL seed, chain length n in 2..8, n signer '
        'seeds, per-hop sigfields, flags and which hops get refund keys (PTLC final locks); rules attempt to release hop i '
        'with a scalar obtained from a drawn source (the final key, the release of any already released hop j, the key of '
        'an independent chain, a random scalar), run the full right-to-left cascade, and validate a party\'s view. Model: '
        'the scalar S_i = sum_{k<=i} y_k mod L that the documented derivation assigns to hop i (pure-Python reference). '
        'Invariants: hop i\'s tweak point = S_i*G, check_setup accepts every view, verify_lock_key(last point, key); an '
        'attempt succeeds (decrypted signature unlocks hop i through run_auth_scripts) <=> its scalar is S_i. '
        'non-trivial = n >= 3 and >= 1 failing attempt, or refund keys present; distinct by (n, refund pattern, attempt sequence).'
        ' Also the empty AMHL seed (random samples, token_bytes pinned; the model takes the per-hop secrets from the setup) and VerifyKey objects as parties and refund-mapping keys.')
ASSUMPTIONS = ['AMHL.sample derivation as documented: clamp(sha256(seed || i as 8 bytes big endian))',
               'vt/ed25519_ref.py for scalar / point arithmetic',
               'the parties of a chain have distinct public keys (setup_amhl returns a dict keyed by public key: a repeated key '
               'overwrites the earlier hop) - "key sets"']

sha = lambda b: hashlib.sha256(b).digest()  # noqa: E731


def seed_of(tag, i):
    return sha(b'c18' + tag + bytes([i]))


class Interp:
    """Executes a history against the implementation and the model."""

    def __init__(self, init):
        self.init = init
        tag, n = init['tag'], init['n']
        self.n = n
        self.fails = []
        self.seeds = [seed_of(tag, i) for i in range(n)]
        self.pks = [E.pub(s) for s in self.seeds]
        self.flag = init['flag'] & 0x7f
        fl = '%02x' % self.flag
        self.fields = [{'sigfield1': b'pay %d ' % i + tag, 'sigfield2': bytes([i])} for i in range(n)]
        refund = {self.pks[i]: E.pub(seed_of(tag, 100 + i)) for i in range(n) if (init['refund_mask'] >> i) & 1}
        self.refund = refund
        env.pin_clock(1_700_000_000)
        env.pin_random(b'c18' + tag)           # an empty AMHL seed means random samples: keep the run a function of the case
        try:
            if init.get('vk'):
                # the documented operand types: VerifyKey objects for the parties and as keys of the refund mapping
                from nacl.signing import VerifyKey
                self.amhl = T.setup_amhl(init['amhl_seed'], [VerifyKey(p) for p in self.pks], fl,
                                         {VerifyKey(k): v for k, v in refund.items()} or None)
            else:
                self.amhl = T.setup_amhl(init['amhl_seed'], list(self.pks), fl, refund or None)
            self.other = T.setup_amhl(init['amhl_seed'] + b'other', list(self.pks), fl)
        finally:
            env.unpin_clock()
            env.unpin_random()
        # model
        if init['amhl_seed']:
            self.y = [E.scalar_int(E.clamp(sha(init['amhl_seed'] + i.to_bytes(8, 'big')))) % L for i in range(n)]
        else:
            # no seed: the samples are random; the model takes the per-hop secrets the setup hands out and everything else
            # (tweak points, final key, locks, cascade) must be consistent with them
            self.y = [E.scalar_int(self.amhl[self.pks[i]][3]) % L for i in range(n)]
        self.S = []
        acc = 0
        for v in self.y:
            acc = (acc + v) % L
            self.S.append(acc)
        self.wits = [T.make_adapter_witness(self.seeds[i], self.amhl[self.pks[i]][2], self.fields[i], fl) for i in range(n)]
        self.released = {}          # hop -> decrypted signature
        self.attempts = 0
        self.failed_attempts = 0
        self._setup_invariants()

    def fail(self, sig, detail=''):
        self.fails.append((sig, detail))

    def _setup_invariants(self):
        n = self.n
        for i in range(n):
            Tp = self.amhl[self.pks[i]][2]
            want = E.enc(E.mul(self.S[i], E.G))
            if Tp != want:
                self.fail('amhl/tweak-point-of-hop-is-not-the-sum-of-secret-points', 'hop %d of %d' % (i, n))
            if E.scalar_int(self.amhl[self.pks[i]][3]) % L != self.y[i]:
                self.fail('amhl/partial-scalar-differs-from-documented-sample', 'hop %d' % i)
            if not F.run_auth_scripts([self.wits[i].bytes, self.amhl[self.pks[i]][0].bytes], dict(self.fields[i])):
                self.fail('amhl/adapter-witness-rejected-by-hop-adapter-lock', 'hop %d' % i)
        if E.scalar_int(self.amhl['key']) % L != self.S[-1]:
            self.fail('amhl/final-key-is-not-the-sum-of-all-secrets', '')
        if not A.AMHL.verify_lock_key(self.amhl[self.pks[-1]][2], self.amhl['key']):
            self.fail('amhl/final-key-does-not-open-the-last-lock', '')
        setup = A.AMHL.setup(n, self.init['amhl_seed'])
        for i in range(n + 1):
            view = A.AMHL.setup_for(setup, i)
            try:
                ok = A.AMHL.check_setup(view, i, n)
            except BaseException as e:  # noqa
                if isinstance(e, (KeyboardInterrupt, SystemExit)):
                    raise
                ok = 'raised %s' % type(e).__name__
            if ok is not True:
                self.fail('amhl/check_setup-rejects-an-honest-view', 'party %d of %d: %r' % (i, n, ok))

    def scalar_from(self, source):
        """-> (scalar bytes, model value mod L) or None when the source is not available."""
        kind = source[0]
        if kind == 'key':
            return self.amhl['key'], self.S[-1]
        if kind == 'from':
            j = source[1] % self.n
            if j not in self.released or j == 0:
                return None
            sig = self.released[j]
            r = T.release_left_amhl_lock(self.wits[j], sig, self.amhl[self.pks[j]][3])
            return r, self.S[j - 1]
        if kind == 'foreign':
            k = self.other['key']
            return k, E.scalar_int(k) % L
        if kind == 'random':
            k = E.clamp(sha(b'rnd%d' % source[1]))
            return k, E.scalar_int(k) % L
        raise ValueError(kind)

    def unlock_script(self, i, sig):
        sigf = sig + (bytes([self.flag]) if self.flag else b'')
        w = push(sigf)
        if self.pks[i] in self.refund:
            w += bytes([C['OP_TRUE']])
        return w

    def attempt(self, i, source):
        i %= self.n
        sc = self.scalar_from(source)
        if sc is None:
            return 'unavailable'
        scalar, val = sc
        if val == 0:
            return 'unavailable'
        self.attempts += 1
        if source[0] == 'from' and val != self.S[(source[1] % self.n) - 1]:
            pass
        # what the release function returned must be the model's scalar for the next-left hop
        if E.scalar_int(scalar) % L != val:
            self.fail('amhl/release-yields-wrong-scalar', 'source %r' % (source,))
            return 'fail'
        try:
            sig = T.decrypt_adapter(self.wits[i], scalar)
            ok = F.run_auth_scripts([self.unlock_script(i, sig), self.amhl[self.pks[i]][1].bytes], dict(self.fields[i]))
        except BaseException as e:  # noqa
            if isinstance(e, (KeyboardInterrupt, SystemExit)):
                raise
            self.fail('amhl/attempt-raises-%s' % type(e).__name__, 'hop %d source %r: %s' % (i, source, str(e)[:60]))
            return 'fail'
        want = val == self.S[i]
        if ok != want:
            self.fail('amhl/%s' % ('hop-opens-with-a-scalar-of-another-hop-or-chain' if ok else
                                   'rightful-scalar-does-not-open-the-hop'),
                      'hop %d of %d source %r refund=%r' % (i, self.n, source, self.pks[i] in self.refund))
            return 'fail'
        if ok:
            if not E.verify(self.pks[i], msg_of(self.fields[i], self.flag), sig):
                self.fail('amhl/decrypted-signature-invalid-under-reference', 'hop %d' % i)
            self.released[i] = sig
            return 'released'
        self.failed_attempts += 1
        return 'refused'

    def cascade(self):
        """Right to left: every hop must open."""
        res = self.attempt(self.n - 1, ('key',))
        if res != 'released':
            return
        for i in range(self.n - 1, 0, -1):
            if self.attempt(i - 1, ('from', i)) != 'released':
                self.fail('amhl/cascade-stalls', 'at hop %d of %d' % (i - 1, self.n))
                return

    def step(self, s):
        if s[0] == 'attempt':
            return self.attempt(s[1], tuple(s[2]))
        if s[0] == 'cascade':
            return self.cascade()
        raise ValueError(s[0])


def check_case(case):
    if case.get('check') != 'history':
        raise ValueError('check')
    init = case['init']
    if not 2 <= init['n'] <= 8:
        raise ValueError('domain')
    it = Interp(init)
    for s in case['steps']:
        if it.fails:
            break
        it.step(s)
    return it.fails


def make_machine(ctx):
    class Machine(RuleBasedStateMachine):
        def __init__(self):
            super().__init__()
            self.it = None
            self.steps = []
            self.dead = False

        @initialize(tag=st.binary(min_size=1, max_size=2), n=st.integers(2, 8), amhl_seed=st.one_of(st.just(b''), st.binary(min_size=1, max_size=16), st.binary(min_size=1, max_size=16), st.binary(min_size=1, max_size=16)),
                    flag=st.sampled_from([0, 0, 0, 1]), refund_mask=st.sampled_from([0, 0, 0xff, 0x05, 0x02]), vk=st.sampled_from([False, False, True]))
        def setup(self, tag, n, amhl_seed, flag, refund_mask, vk):
            self.init = {'tag': tag, 'n': n, 'amhl_seed': amhl_seed, 'flag': flag, 'refund_mask': refund_mask, 'vk': vk}
            self.it = Interp(self.init)
            self._report()

        def _report(self):
            if self.it.fails and not self.dead:
                self.dead = True
                for s, d in self.it.fails:
                    ctx.fail('history', s, {'check': 'history', 'init': self.init, 'steps': list(self.steps)}, d)

        @rule(i=st.integers(0, 7), src=st.one_of(st.just(('key',)), st.tuples(st.just('from'), st.integers(0, 7)),
                                                 st.tuples(st.just('from'), st.integers(0, 7)),
                                                 st.just(('foreign',)), st.tuples(st.just('random'), st.integers(0, 50))))
        def attempt(self, i, src):
            if self.dead or self.it is None:
                return
            self.steps.append(['attempt', i, list(src)])
            r = self.it.attempt(i, src)
            ctx.count('attempt:%s' % r)
            self._report()

        @rule(i=st.integers(1, 7))
        def release_next_left(self, i):
            """the rightful move, to make progress likely"""
            if self.dead or self.it is None:
                return
            i %= self.it.n
            src = ('from', i) if i in self.it.released else ('key',)
            tgt = i - 1 if i in self.it.released else self.it.n - 1
            self.steps.append(['attempt', tgt, list(src)])
            r = self.it.attempt(tgt, src)
            ctx.count('attempt:%s' % r)
            self._report()

        @rule()
        def cascade(self):
            if self.dead or self.it is None:
                return
            self.steps.append(['cascade'])
            self.it.cascade()
            ctx.count('cascade')
            self._report()

        def teardown(self):
            if self.it is None:
                return
            it = self.it
            nt = (it.n >= 3 and it.failed_attempts >= 1) or bool(it.refund)
            ctx.case((self.init, self.steps), nt)
            ctx.count('chain-length:%d' % it.n)
            ctx.count('hops-released', len(it.released))
            if len(it.released) == it.n:
                ctx.count('all-hops-released')
            if nt and len(self.steps) <= 6:
                ctx.sample({'init': self.init, 'steps': self.steps, 'released': sorted(it.released)})
    return Machine


def task_machines(ctx):
    n = ctx.n(900, 20000)
    M = hypothesis.seed(ctx.seed)(make_machine(ctx))
    run_state_machine_as_test(M, settings=settings(
        max_examples=n, stateful_step_count=12 if not ctx.thorough() else 20, deadline=None, database=None,
        phases=[Phase.generate], suppress_health_check=list(HealthCheck), report_multiple_bugs=False,
        verbosity=hypothesis.Verbosity.quiet))


TASKS = {'machines': (task_machines, 16, 16)}


def guards(tier, c, evaluations, nnt):
    msgs = []
    if c.get('attempt:released', 0) < 100 or c.get('attempt:refused', 0) < 100:
        msgs.append('attempt classes too small: %r' % {k: v for k, v in c.items() if k.startswith('attempt')})
    if c.get('all-hops-released', 0) < 10:
        msgs.append('fewer than 10 machines released every hop')
    return msgs
