"""C08 - scripts can read but never alter interpreter-owned (str-keyed) cache values."""
from __future__ import annotations
import copy
from .. import env, hyp, gen, optable as O, refasm as R, render, monitors
from ..util import headroom
from hypothesis import strategies as st

F, Cl = env.F, env.C
C = O.CODES
ID = 'C08'
LEVEL = 'exploration'
RULE = ('Hypothesis-generated scripts biased to the cache-writing paths (WRITE_CACHE, POP0, POP1, TRY/EXCEPT, SIGN, '
        'SIGN_STACK, DERIVE_SCALAR, DERIVE_POINT, both MAKE_ADAPTER ops, DECRYPT_ADAPTER_SIG) and to READ_CACHE_STACK / '
        'GET_VALUE and to the readers of the embedder entries with their operands in place (GET_MESSAGE, CHECK_SIG, CHECK_TEMPLATE(_VERIFY) with a template per flagged field, CHECK_TIMESTAMP(_VERIFY), CHECK_EPOCH), with key operands spelling every protected name in every encoding (utf-8, NUL-padded, upper-case, '
        'as ints), nested in all constructs, plus byte soup; initial caches = sigfield subsets + timestamp + 0-3 other '
        'str keys with bytes / bytearray / int / str / float / list values; timestamp absent, float, str, bytes, None, bool or list in 1 of 6 caches (sigfields are bytearrays in 1 of 8 draws); plus '
        'a scale family: 1 .. 5000 writes to distinct keys (counts around 256 / 512 / 1024) x 4 key styles x 4 caches. Oracle: a recording dict flags any mutation whose key '
        'is not bytes, at any step incl. failed runs; afterwards '
        'every embedder entry equals its deep copy (value and type), also in the cache returned by run_script; '
        'GET_MESSAGE / CHECK_TIMESTAMP after the prefix give the fresh-cache result. non-trivial = a cache write whose '
        'key bytes spell a protected name, or >= 3 cache writes; distinct = digest of (script, cache).')
ASSUMPTIONS = ['no plugin or contract installed (as the property states)',
               ]


class RecDict(dict):
    def __init__(self, *a, **k):
        super().__init__(*a, **k)
        self.log = []

    def __setitem__(self, k, v):
        self.log.append(('set', k))
        super().__setitem__(k, v)

    def __delitem__(self, k):
        self.log.append(('del', k))
        super().__delitem__(k)

    def pop(self, k, *a):
        self.log.append(('pop', k))
        return super().pop(k, *a)

    def popitem(self):
        self.log.append(('popitem', None))
        return super().popitem()

    def update(self, *a, **k):
        for kk in dict(*a, **k):
            self.log.append(('update', kk))
        super().update(*a, **k)

    def setdefault(self, k, d=None):
        if k not in self:
            self.log.append(('setdefault', k))
        return super().setdefault(k, d)

    def clear(self):
        self.log.append(('clear', None))
        super().clear()

    def __ior__(self, other):
        for kk in other:
            self.log.append(('ior', kk))
        return super().__ior__(other)


PROTECTED = ['sigfield1', 'sigfield2', 'sigfield3', 'sigfield4', 'sigfield5', 'sigfield6', 'sigfield7', 'sigfield8',
             'timestamp', 'E', 'P', 'x', 'IR', 'sa', 'custom', 'ünï']


# the consequence runs append MARK before the instruction they observe: the prefix is run again there (another clock, the
# timestamp run_script supplies) and may end the script before the appended code - then there is nothing to observe
MARK_KEY = b'~reached'
MARK = bytes([C['OP_PUSH0'], 1, C['OP_WRITE_CACHE'], len(MARK_KEY)]) + MARK_KEY + b'\x01'


def _msg(cache, flag):
    out = b''
    for i in range(1, 9):
        k = 'sigfield%d' % i
        if k in cache and not flag & (1 << (i - 1)):
            out += bytes(cache[k])
    return out


def _typed_equal(a, b):
    if type(a) is not type(b):
        return False
    if isinstance(a, (list, tuple)):
        return len(a) == len(b) and all(_typed_equal(x, y) for x, y in zip(a, b))
    if isinstance(a, float):
        return a == b or (a != a and b != b)
    return a == b


def evaluate(script, emb):
    fails = []
    info = {}
    before = copy.deepcopy(emb)
    cache = RecDict(copy.deepcopy(emb))
    tape, stack = Cl.Tape(script), Cl.Stack()
    env.pin_clock(1_700_000_000)
    env.pin_random(b'c08')
    try:
        with headroom(1000):
            try:
                F.run_tape(tape, stack, cache)
                info['outcome'] = 'ok'
            except BaseException as e:  # noqa
                if isinstance(e, (KeyboardInterrupt, SystemExit)):
                    raise
                info['outcome'] = 'err'
        bad = [(op, k) for op, k in cache.log if not isinstance(k, bytes)]
        if bad:
            op, k = bad[0]
            fails.append(('cache/non-bytes-key-mutated/%s' % op, 'key %r (%s) by script %s' % (k, type(k).__name__, script[:40].hex())))
        for k, v in before.items():
            if k not in cache:
                fails.append(('cache/embedder-key-missing', repr(k)))
            elif not _typed_equal(cache[k], v):
                fails.append(('cache/embedder-value-changed', '%r: %r -> %r' % (k, v, cache[k])))
        writes = [k for op, k in cache.log if op == 'set' and isinstance(k, bytes)]
        info['writes'] = len(writes)
        prot = set()
        for p in PROTECTED:
            prot.update({p.encode(), p.upper().encode(), p.encode() + b'\x00'})
        info['spelled'] = any(k in prot or k.rstrip(b'\x00') in prot for k in writes)
        # did the script end through a top-level RETURN? (then instructions appended to it would not run)
        info['returned'] = bool(getattr(stack, 'returned', False)) or ('returned' in cache and 'returned' not in before)
        # the same through run_script (returned cache)
        with headroom(1000):
            try:
                _, _, c2 = F.run_script(script, copy.deepcopy(emb))
                for k, v in before.items():
                    if k not in c2 or not _typed_equal(c2[k], v):
                        fails.append(('cache/run_script-returned-cache-differs', '%r: %r -> %r' % (k, v, c2.get(k))))
                        break
            except BaseException as e:  # noqa
                if isinstance(e, (KeyboardInterrupt, SystemExit)):
                    raise
            # consequence checks after the adversarial prefix
            if info['outcome'] == 'ok' and not info['returned']:
                for flag in (0, 0x05):
                    try:
                        _, s3, c3 = F.run_script(script + MARK + bytes([C['OP_GET_MESSAGE'], flag]), copy.deepcopy(emb))
                        top = s3.list()[-1] if len(s3) else None
                        if MARK_KEY not in c3:
                            info['consequence_unreached'] = True      # in THIS run the prefix ended the script (its own time checks see run_script's timestamp)
                        elif top != _msg(before, flag):
                            fails.append(('consequence/message-changed', 'flag %02x: %r expected %r' % (flag, top, _msg(before, flag))))
                        for k, v in before.items():
                            if k not in c3 or not _typed_equal(c3[k], v):
                                fails.append(('cache/embedder-value-changed-by-GET_MESSAGE', '%r: %r -> %r' % (k, v, c3.get(k))))
                                break
                    except BaseException as e:  # noqa
                        if isinstance(e, (KeyboardInterrupt, SystemExit)):
                            raise
                if isinstance(before.get('timestamp'), int) and before['timestamp'] >= 0:
                    t = before['timestamp']
                    for cst, exp in ((t, b'\xff'), (t + 1, b'\x00')):
                        enc = cst.to_bytes(max(1, (cst.bit_length() + 7) // 8), 'big')
                        sc = script + MARK + bytes([C['OP_PUSH1'], len(enc)]) + enc + bytes([C['OP_CHECK_TIMESTAMP']])
                        try:
                            env.pin_clock(t)      # no slack involved: the check is about the cached timestamp only
                            _, s4, c4 = F.run_script(sc, copy.deepcopy(emb))
                            top = s4.list()[-1] if len(s4) else None
                            if MARK_KEY not in c4:
                                info['consequence_unreached'] = True  # under this clock the prefix's own time checks end the script
                            elif top != exp:
                                fails.append(('consequence/timestamp-check-changed', 'constraint t%+d: %r' % (cst - t, top)))
                        except BaseException as e:  # noqa
                            if isinstance(e, (KeyboardInterrupt, SystemExit)):
                                raise
    finally:
        env.unpin_clock()
        env.unpin_random()
    return fails, info


def check_case(case):
    if case.get('check') != 'run':
        raise ValueError('check')
    emb = case['cache']
    if not isinstance(emb, dict) or any(not isinstance(k, str) for k in emb):
        raise ValueError('cache')
    for i in range(1, 9):
        k = 'sigfield%d' % i
        if k in emb and not isinstance(emb[k], (bytes, bytearray)):
            raise ValueError('sigfields are bytes')
    script = R.encode(render.lower(case['prog'])) if 'prog' in case else case['script']
    return evaluate(script, emb)[0]


# ---------------------------------------------------------------- generators
def I(name, *ops):
    return ['i', C[name]] + list(ops)


SEED = bytes(range(32))
VK = bytes.fromhex('03a107bff3ce10be1d70dd18e74bc09967e4d6309ba50d5f1ddc8664125531b8')      # RFC 8032 public key of SEED


@st.composite
def key_bytes(draw, names=None):
    name = draw(st.sampled_from((list(names) * 3 if names else []) + PROTECTED))
    enc = draw(st.sampled_from(['utf8', 'utf8', 'utf8', 'nul', 'upper', 'int', 'prefix', 'other']))
    b = name.encode()
    if enc == 'nul':
        return b + b'\x00' * draw(st.integers(1, 2))
    if enc == 'upper':
        return name.upper().encode()
    if enc == 'int':
        return draw(st.integers(0, 300)).to_bytes(2, 'big')
    if enc == 'prefix':
        return b[:draw(st.integers(0, len(b)))]
    if enc == 'other':
        return draw(st.binary(max_size=6))
    return b


@st.composite
def cache_instr(draw, names=None):
    k = draw(st.sampled_from(['wc', 'wc', 'wc', 'pop0', 'pop1', 'rcs', 'rcsz', 'val', 'val', 'val', 'rc', 'rcz', 'sign',
                              'signstack', 'dscalar', 'dpoint', 'masu', 'masv', 'das', 'try', 'msg', 'plain', 'push', 'ret',
                              'setflag', 'ctpl', 'ctpl', 'cts', 'cts', 'cep', 'csig']))
    key = draw(key_bytes(names))
    if k == 'wc':
        return [['push', b'v1'], ['push', b'v2'], I('OP_WRITE_CACHE', key, draw(st.integers(0, 2)))]
    if k == 'pop0':
        return [['push', b'p'], I('OP_POP0')]
    if k == 'pop1':
        return [['push', b'p'], ['push', b'q'], I('OP_POP1', draw(st.integers(0, 2)))]
    if k == 'rcs':
        return [['push', key or b'k'], I('OP_READ_CACHE_STACK')]
    if k == 'rcsz':
        return [['push', key or b'k'], I('OP_READ_CACHE_STACK_SIZE')]
    if k == 'val':
        return [I('OP_GET_VALUE', key)]
    if k == 'rc':
        return [I('OP_READ_CACHE', key)]
    if k == 'rcz':
        return [I('OP_READ_CACHE_SIZE', key)]
    if k == 'sign':
        return [['push', SEED], I('OP_SIGN', draw(gen.u8))]
    if k == 'signstack':
        return [['push', b'message'], ['push', SEED], I('OP_SIGN_STACK')]
    if k == 'dscalar':
        return [['push', SEED], I('OP_DERIVE_SCALAR')]
    if k == 'dpoint':
        return [['push', SEED], I('OP_DERIVE_SCALAR'), I('OP_DERIVE_POINT')]
    if k == 'masu':
        return [['push', SEED], ['push', b'm'], ['push', SEED], I('OP_DERIVE_SCALAR'), I('OP_DERIVE_POINT'),
                I('OP_MAKE_ADAPTER_SIG_PUBLIC')]
    if k == 'masv':
        return [['push', b'm'], ['push', SEED[::-1]], ['push', SEED], I('OP_MAKE_ADAPTER_SIG_PRIVATE')]
    if k == 'das':
        return [['push', SEED], ['push', b'm'], ['push', SEED], I('OP_DERIVE_SCALAR'), I('OP_DERIVE_POINT'),
                I('OP_MAKE_ADAPTER_SIG_PUBLIC'), ['push', SEED], I('OP_DECRYPT_ADAPTER_SIG')]
    if k == 'try':
        return [['try', [I('OP_FALSE'), I('OP_VERIFY')], draw(st.sampled_from([[], [I('OP_READ_CACHE', b'E')]]))]]
    if k == 'msg':
        return [I('OP_GET_MESSAGE', draw(gen.u8))]
    # the instructions that READ the embedder's entries (sigfields, timestamp) with their operands in place
    if k == 'ctpl':
        f = draw(st.one_of(st.sampled_from([1, 2, 3, 0x80, 0x81, 0xff]), gen.u8))
        return ([['push', draw(st.sampled_from([b'a', b'', b'msg']))] for _ in range(bin(f).count('1'))] +
                [I(draw(st.sampled_from(['OP_CHECK_TEMPLATE', 'OP_CHECK_TEMPLATE', 'OP_CHECK_TEMPLATE_VERIFY'])), f)])
    if k == 'cts':
        c = draw(st.sampled_from([0, 1, 1_700_000_000, 1_700_000_001, 2 ** 40]))
        return [['push', c.to_bytes(max(1, (c.bit_length() + 7) // 8), 'big')],
                I(draw(st.sampled_from(['OP_CHECK_TIMESTAMP', 'OP_CHECK_TIMESTAMP', 'OP_CHECK_TIMESTAMP_VERIFY'])))]
    if k == 'cep':
        return [['push', (1_700_000_000).to_bytes(4, 'big')], I(draw(st.sampled_from(['OP_CHECK_EPOCH', 'OP_CHECK_EPOCH_VERIFY'])))]
    if k == 'csig':
        return [['push', b'\x05' * 64], ['push', VK], I('OP_CHECK_SIG', draw(st.sampled_from([0, 0xff])))]
    if k == 'ret':
        return [I('OP_RETURN')]
    if k == 'setflag':
        return [I(draw(st.sampled_from(['OP_SET_FLAG', 'OP_UNSET_FLAG'])), draw(st.sampled_from([b'\x01', b'\x09', b'ts_threshold', key])))]
    if k == 'push':
        return [['push', key or b'\x00']]
    return [draw(st.sampled_from([I('OP_TRUE'), I('OP_FALSE'), I('OP_DUP'), I('OP_NOT'), I('OP_SWAP2'), I('OP_CONCAT'),
                                  I('OP_DEPTH')]))]


def cache_prog(depth=0, names=None):
    @st.composite
    def _p(draw):
        out = []
        for _ in range(draw(st.integers(1, 6))):
            if depth < 3 and draw(st.integers(0, 9)) < 2:
                body = draw(cache_prog(depth + 1, names))
                c = draw(st.sampled_from(['if', 'loop', 'ife', 'try', 'except', 'defcall', 'eval']))
                if c == 'if':
                    out += [I('OP_TRUE'), ['if', body]]
                elif c == 'loop':
                    out += [I('OP_TRUE'), ['loop', [I('OP_POP0')] + body + [I('OP_FALSE')]]]
                elif c == 'ife':
                    out += [I('OP_FALSE'), ['ife', [], body]]
                elif c == 'try':
                    out += [['try', body, []]]
                elif c == 'except':
                    out += [['try', [I('OP_FALSE'), I('OP_VERIFY')], body]]
                elif c == 'defcall':
                    out += [['def', 1, body], I('OP_CALL', 1)]
                else:
                    try:
                        b = R.encode(render.lower(body))
                    except R.NotEncodable:
                        b = b''
                    if 0 < len(b) < 1000:
                        out += [['push', b], I('OP_EVAL')]
            else:
                out += draw(cache_instr(names))
        return out
    return _p()


VALUES = st.one_of(st.binary(max_size=8), st.binary(max_size=8).map(bytearray), st.integers(-5, 2 ** 40), st.text(max_size=4), st.floats(allow_nan=False, width=32),
                   st.lists(st.one_of(st.binary(max_size=4), st.integers(0, 9)), max_size=4),
                   st.lists(st.binary(max_size=4), min_size=1, max_size=4))


@st.composite
def emb_cache(draw):
    c = {}
    for i in range(1, 9):
        if draw(st.booleans()):
            c['sigfield%d' % i] = draw(st.binary(max_size=12))
            if draw(st.integers(0, 7)) == 0:
                # the embedder's own mutable buffer: concatenation and hashing accept it like bytes
                c['sigfield%d' % i] = bytearray(c['sigfield%d' % i])
    c['timestamp'] = draw(st.one_of(st.just(1_700_000_000), st.integers(0, 2 ** 40)))
    r = draw(st.integers(0, 11))
    if r == 0:
        # an embedder value of another type (the time instructions refuse it; it stays what it is)
        c['timestamp'] = draw(st.sampled_from([1_700_000_000.75, -0.5, 1_700_000_000.0, '1700000000', b'\x65\x53\xf1\x00', None, True, [1_700_000_000]]))
    elif r == 1:
        del c['timestamp']
    for _ in range(draw(st.integers(0, 3))):
        c[draw(st.sampled_from(['E', 'P', 'x', 'IR', 'sa', 'custom', 'ünï', 'X', 's', 'returned', 'returned']))] = draw(VALUES)
    return c


def _one(ctx, script, emb, case):
    if not monitors.within_budget([script], {k: v for k, v in emb.items() if isinstance(k, str)}):
        ctx.count('skipped:work-explodes (step budget)')
        return
    fails, info = evaluate(script, emb)
    nt = info.get('spelled') or info.get('writes', 0) >= 3
    ctx.case((script, emb), nt)
    ctx.count('outcome:' + info.get('outcome', '?'))
    if info.get('spelled'):
        ctx.count('wrote-protected-spelling')
    if info.get('returned'):
        ctx.count('returned-flag-left')
    if info.get('consequence_unreached'):
        ctx.count('consequence run: the prefix ended the script before the appended instruction')
    for s, d in fails:
        ctx.fail('run', s, case, d)
    if nt and len(script) < 90:
        ctx.sample({'script': script, 'cache': emb, 'cache_writes': info.get('writes')})


def task_structured(ctx):
    def one(t):
        prog, emb = t
        try:
            script = R.encode(render.lower(prog))
        except R.NotEncodable:
            return
        _one(ctx, script, emb, {'check': 'run', 'prog': prog, 'cache': emb})
    @st.composite
    def both(draw):
        emb = draw(emb_cache())
        return draw(cache_prog(0, sorted(emb))), emb
    hyp.drive(both(), one, ctx.n(12000, 500000), ctx.seed)


def task_soup(ctx):
    # opcode-aware soup: valid instruction encodings followed by byte-level mutation
    @st.composite
    def soup(draw):
        prog = draw(cache_prog(2, ['timestamp', 'sigfield1', 'custom']))
        try:
            b = bytearray(R.encode(render.lower(prog)))
        except R.NotEncodable:
            b = bytearray(b'\x01')
        for _ in range(draw(st.integers(0, 3))):
            if b:
                i = draw(st.integers(0, len(b) - 1))
                b[i] = draw(st.integers(0, 255))
        return bytes(b)
    strat = st.tuples(st.one_of(soup(), st.binary(min_size=1, max_size=80)), emb_cache())
    hyp.drive(strat, lambda t: _one(ctx, t[0], t[1], {'check': 'run', 'script': t[0], 'cache': t[1]}),
              ctx.n(12000, 500000), ctx.seed + 1)


SCALE_N = [1, 2, 16, 100, 254, 255, 256, 257, 300, 511, 512, 513, 1023, 1024, 1025, 2000, 5000]
SCALE_EMB = [{'timestamp': 1_700_000_000},
             {'sigfield1': b'a', 'timestamp': 1_700_000_000},
             dict({'sigfield%d' % i: bytes([i]) * 3 for i in range(1, 9)}, timestamp=1_700_000_000, custom=b'c', E=[b'e']),
             dict({'k%d' % i: b'v' for i in range(40)}, sigfield2=b'two', timestamp=5)]


def scale_script(n, style):
    """n writes to n distinct byte-string keys (the key is a literal operand, so the writes are unrolled)."""
    out = b''
    for i in range(n):
        key = i.to_bytes(2, 'big') if style == 0 else (b'%d' % i) if style == 1 else (b'k' + bytes([i % 256]) * (1 + i // 256))
        if style == 3:
            key = b'sigfield%d' % i
        out += bytes([C['OP_PUSH0'], i % 256, C['OP_WRITE_CACHE'], len(key)]) + key + b'\x01'
    return out


def task_scale(ctx):
    """However many distinct script registers a run creates, the embedder's entries stay: every count around powers of two
    up to 5000 x key style x initial cache, written by one script."""
    n = 0
    cases = [(k, style, e) for k in SCALE_N for style in range(4) for e in range(len(SCALE_EMB))]
    for i, (k, style, e) in enumerate(cases):
        if i % ctx.nshards != ctx.shard:
            continue
        script = scale_script(k, style)
        emb = copy.deepcopy(SCALE_EMB[e])
        fails, info = evaluate(script, emb)
        ctx.case(('scale', k, style, e), info.get('writes', 0) >= 3)
        ctx.count('scale:writes>=256' if k >= 256 else 'scale:writes<256')
        ctx.count('outcome:' + info.get('outcome', '?'))
        for s_, d in fails:
            ctx.fail('run', s_, {'check': 'run', 'script': script, 'cache': emb}, d)
        n += 1
    ctx.exhaustive['distinct-key write counts %r x 4 key styles x %d initial caches' % (SCALE_N, len(SCALE_EMB))] = n


TASKS = {
    'scale': (task_scale, 4, 8),
    'structured': (task_structured, 12, 16),
    'soup': (task_soup, 8, 16),
}


def guards(tier, c, evaluations, nnt):
    msgs = []
    if c.get('wrote-protected-spelling', 0) < 200:
        msgs.append('only %d runs wrote a key spelling a protected name' % c.get('wrote-protected-spelling', 0))
    if c.get('outcome:ok', 0) < 0.1 * evaluations:
        msgs.append('fewer than 10% of runs end without error')
    return msgs
