"""C09 - embedder configuration applies uniformly at every nesting level."""
from __future__ import annotations
import hashlib
import itertools
from .. import env, optable as O, ed25519_ref as E
from ..recorder import push
from nacl.signing import SigningKey

F, Cl = env.F, env.C
C = O.CODES
ID = 'C09'
LEVEL = 'exploration'
RULE = ('bounded-exhaustive: every nesting context = word of length 0..3 over {IF, IF_ELSE-then, IF_ELSE-else, TRY, '
        'EXCEPT, LOOP, DEF/CALL, EVAL, MERKLEVAL, TAPROOT script path} (1111 contexts; depth 4 complete in thorough) '
        'wrapped around every probe instruction, under every single-setting configuration of that probe (flag 0-10 on / '
        'off, ts / epoch threshold default / 5, disallow_OP_EVAL, eval_return, signature-extension plugin before each of '
        'the ten signature-related instructions, check_template plugin, contracts for INVOKE / CHECK_TRANSFER, '
        'callstack_limit), plus drawn contexts of depth 4-5. Oracle: the probe\'s observable (cache key written or not, '
        'plugin call count, verdict, contract call count, reached call depth) must equal the documented meaning of the '
        'configuration and the top-level observation; the top tape\'s flags after the run must equal the configuration; '
        'SET_FLAG / UNSET_FLAG k must change exactly integer flag k. non-trivial = depth >= 1 and a non-default '
        'configuration; all cases distinct by construction (context word, probe, configuration).'
        ' Flag instructions for flags 0-10 under 41 placements relative to the probe: direct, persist (idle LOOP / CALL / IF / TRY / EVAL in between), inherit (probe inside each of 11 constructs entered afterwards), viafn (the instruction in a function called inside the construct), noopcall (metamorphic: an idle CALL next to the instruction changes nothing observed after the construct), loopcarry (instruction in iteration 1 of a LOOP - directly or in a called function -, probe in iteration 2).'
        ' Task named: flag instructions whose operand spells one of the four named settings leave the setting in force. Task budget: under limit L = 1..3 every mixture of L-1 / L / L+1 call-like constructs (CALL, EVAL, MERKLEVAL, TAPROOT script path; one IF / ELSE / TRY / EXCEPT / LOOP body at any position) runs its innermost body exactly when their number is <= L. Signature-plugin probes also with flag 10 off.')
ASSUMPTIONS = ['the configuration is handed to run_tape exactly as run_script does (tape.contracts, tape.plugins, '
               'additional_flags) so that the cache can be inspected after failed runs as well',
               'clock pinned']

NOW = 1_700_000_000
sha = lambda b: hashlib.sha256(b).digest()  # noqa: E731
SEED = bytes(range(32))
PK = bytes(SigningKey(SEED).verify_key)
FILLER = bytes([C['OP_FALSE']])
CID = b'\xc1' * 20
CID2 = b'\xc2' * 20


def L2(b):
    return len(b).to_bytes(2, 'big')


def xor(a, b):
    return bytes(x ^ y for x, y in zip(a, b))


def op(name, *operands):
    return bytes([C[name]]) + bytes(operands)


def W(key, n=1):
    return bytes([C['OP_WRITE_CACHE'], len(key)]) + key + bytes([n])


CTX = ['IF', 'IFELSE_T', 'IFELSE_E', 'TRY', 'EXCEPT', 'LOOP', 'DEFCALL', 'EVAL', 'MERKLEVAL', 'TAPROOT', 'SELFCALL']
CALLLIKE = {'DEFCALL': 1, 'EVAL': 1, 'MERKLEVAL': 1, 'TAPROOT': 1, 'SELFCALL': 2}
_SELF_N = [0]


def wrap(ctx, body):
    if ctx == 'IF':
        return op('OP_TRUE') + op('OP_IF') + L2(body) + body
    if ctx == 'IFELSE_T':
        return op('OP_TRUE') + op('OP_IF_ELSE') + L2(body) + body + b'\x00\x00'
    if ctx == 'IFELSE_E':
        return op('OP_FALSE') + op('OP_IF_ELSE') + b'\x00\x00' + L2(body) + body
    if ctx == 'TRY':
        return op('OP_TRY_EXCEPT') + L2(body) + body + b'\x00\x00'
    if ctx == 'EXCEPT':
        t = op('OP_FALSE') + op('OP_VERIFY')
        return op('OP_TRY_EXCEPT') + L2(t) + t + L2(body) + body
    if ctx == 'LOOP':
        b = op('OP_POP0') + body + op('OP_FALSE')
        return op('OP_TRUE') + op('OP_LOOP') + L2(b) + b + op('OP_POP0')
    if ctx == 'DEFCALL':
        return op('OP_DEF', 7) + L2(body) + body + op('OP_CALL', 7)
    if ctx == 'SELFCALL':
        # a function that calls itself from its own body level (the `if { return } call d0` idiom); the body proper runs
        # once, in the outer invocation, after the inner one has returned
        _SELF_N[0] = (_SELF_N[0] + 1) % 200
        g = b'g%d' % (len(body) % 251)
        h = 20 + len(body) % 200
        guard = (bytes([C['OP_READ_CACHE_SIZE'], len(g)]) + g + push(b'\x01') + op('OP_EQUAL') + op('OP_IF') + L2(op('OP_RETURN')) +
                 op('OP_RETURN') + op('OP_TRUE') + W(g) + op('OP_CALL', h))
        fn = guard + body
        return op('OP_DEF', h) + L2(fn) + fn + op('OP_CALL', h)
    if ctx == 'EVAL':
        return push(body) + op('OP_EVAL')
    if ctx == 'MERKLEVAL':
        root = xor(sha(sha(body)), sha(sha(FILLER)))
        return push(sha(FILLER)) + push(body) + op('OP_MERKLEVAL') + root
    if ctx == 'TAPROOT':
        t = E.scalar_int(E.clamp(sha(PK + sha(body)))) % E.L
        root = E.enc(E.add(E.dec(PK), E.mul(t, E.G)))
        return push(body) + push(PK) + push(root) + op('OP_TAPROOT', 0)
    raise KeyError(ctx)


_WRAP_CACHE = {}


def nest(word, code):
    key = (word, code)
    if key not in _WRAP_CACHE:
        c = code
        for w in reversed(word):
            c = wrap(w, c)
        if len(_WRAP_CACHE) > 200000:
            _WRAP_CACHE.clear()
        _WRAP_CACHE[key] = c
    return _WRAP_CACHE[key]


class Invokable:
    def __init__(self):
        self.calls = 0

    def abi(self, args):
        self.calls += 1
        return [b'\x2a']


class Transfer:
    def __init__(self):
        self.calls = 0

    def verify_txn_proof(self, txn_proof):
        self.calls += 1
        return True

    def verify_transfer(self, txn_proof, source, destination):
        return True

    def verify_txn_constraint(self, txn_proof, constraint):
        return True

    def calc_txn_aggregates(self, txn_proofs, scope=None):
        return {scope: 100}


# adapter material for the flag probes
_T_POINT = E.enc(E.mul(E.scalar_int(E.clamp(sha(b't'))) % E.L, E.G))
_TWEAK = E.clamp(sha(b't'))
ADAPTER_PUB = push(SEED) + push(b'm') + push(_T_POINT) + op('OP_MAKE_ADAPTER_SIG_PUBLIC') + op('OP_POP1', 2)
ADAPTER_PRV = push(b'm') + push(_TWEAK) + push(SEED) + op('OP_MAKE_ADAPTER_SIG_PRIVATE') + op('OP_POP1', 3)
DECRYPT = (push(SEED) + push(b'm') + push(_T_POINT) + op('OP_MAKE_ADAPTER_SIG_PUBLIC') + op('OP_SWAP2') + push(_TWEAK) +
           op('OP_DECRYPT_ADAPTER_SIG') + op('OP_POP1', 2))
_SIG = SigningKey(SEED).sign(b'abc').signature
_TR_T = E.scalar_int(E.clamp(sha(PK + sha(op('OP_TRUE'))))) % E.L
_TR_ROOT = E.enc(E.add(E.dec(PK), E.mul(_TR_T, E.G)))
_TR_SIG = F.sign_with_scalar(E.scalar_bytes(E.scalar_int(E.derive_key_from_seed(SEED)) + _TR_T), b'abc')

# probe table: name -> (code, kind, parameter)
PROBES = {}
FLAGKEYS = {0: b'IR', 1: b'x', 2: b'X', 3: b'r', 4: b'R', 5: b't', 6: b'T', 7: b'RT', 8: b'sa', 9: b's'}
PROBES['flag0'] = (push(b'\x00') + push(CID) + op('OP_INVOKE') + op('OP_POP0'), 'flag', 0)
PROBES['flag1'] = (push(SEED) + op('OP_DERIVE_SCALAR') + op('OP_POP0'), 'flag', 1)
PROBES['flag2'] = (push(SEED) + op('OP_DERIVE_SCALAR') + op('OP_DERIVE_POINT') + op('OP_POP0'), 'flag', 2)
for _k in (3, 4, 6, 8):
    PROBES['flag%d' % _k] = (ADAPTER_PUB, 'flag', _k)
PROBES['flag5'] = (ADAPTER_PRV, 'flag', 5)
PROBES['flag7'] = (DECRYPT, 'flag', 7)
PROBES['flag9-decrypt'] = (DECRYPT, 'flag', 9)
PROBES['flag9-sign'] = (push(SEED) + op('OP_SIGN', 0) + op('OP_POP0'), 'flag', 9)
PROBES['flag9-sign_stack'] = (push(b'm') + push(SEED) + op('OP_SIGN_STACK') + op('OP_POP0'), 'flag', 9)
PROBES['flag10'] = (push(b'abc') + op('OP_CHECK_TEMPLATE', 1) + op('OP_POP0'), 'flag10', None)
PROBES['ts_threshold'] = (push((NOW).to_bytes(4, 'big')) + op('OP_CHECK_TIMESTAMP') + W(b'r'), 'threshold', 'ts_threshold')
PROBES['epoch_threshold'] = (push((NOW + 30).to_bytes(4, 'big')) + op('OP_CHECK_EPOCH') + W(b'r'), 'threshold', 'epoch_threshold')
PROBES['disallow_OP_EVAL'] = (push(op('OP_TRUE') + W(b'ev')) + op('OP_EVAL'), 'noeval', None)
# MERKLEVAL and the TAPROOT script path are documented as "... then OP_EVAL": a disallowed EVAL stays disallowed through them
PROBES['disallow_OP_EVAL:MERKLEVAL'] = (wrap('MERKLEVAL', op('OP_TRUE') + W(b'ev')), 'noeval', None)
PROBES['disallow_OP_EVAL:TAPROOT-scriptpath'] = (wrap('TAPROOT', op('OP_TRUE') + W(b'ev')), 'noeval', None)
PROBES['eval_return'] = (push(op('OP_TRUE') + W(b'in') + op('OP_RETURN')) + op('OP_EVAL') + op('OP_TRUE') + W(b'after'), 'evalreturn', None)
_SIGOPS = {
    'GET_MESSAGE': op('OP_GET_MESSAGE', 0) + op('OP_POP0'),
    'CHECK_SIG': push(_SIG) + push(PK) + op('OP_CHECK_SIG', 0) + op('OP_POP0'),
    'CHECK_SIG_VERIFY': push(_SIG) + push(PK) + op('OP_CHECK_SIG_VERIFY', 0),
    'CHECK_MULTISIG': push(_SIG) + push(PK) + push(sha(b'k2')) + op('OP_CHECK_MULTISIG', 0, 1, 2) + op('OP_POP0'),
    'CHECK_MULTISIG_VERIFY': push(_SIG) + push(PK) + op('OP_CHECK_MULTISIG_VERIFY', 0, 1, 1),
    'SIGN': push(SEED) + op('OP_SIGN', 0) + op('OP_POP0'),
    'CHECK_TEMPLATE': push(b'abc') + op('OP_CHECK_TEMPLATE', 1) + op('OP_POP0'),
    'CHECK_TEMPLATE_VERIFY': push(b'abc') + op('OP_CHECK_TEMPLATE_VERIFY', 1),
    'TAPROOT-keypath': push(_TR_SIG) + push(_TR_ROOT) + op('OP_TAPROOT', 0) + op('OP_POP0'),
}
for _n, _c in _SIGOPS.items():
    PROBES['sigplugin:' + _n] = (_c, 'sigplugin', None)
PROBES['check_template-plugin'] = (push(b'nomatch') + op('OP_CHECK_TEMPLATE', 1) + W(b'r'), 'ctplugin', None)
PROBES['contract:INVOKE'] = (push(b'\x00') + push(CID) + op('OP_INVOKE') + W(b'ir'), 'invoke', None)
PROBES['contract:CHECK_TRANSFER'] = (push(b'proof') + push(b'src') + push(b'\x01') + push(b'dest') + push(b'c') + push(b'\x05') +
                                     push(CID2) + op('OP_CHECK_TRANSFER') + W(b'tr'), 'transfer', None)
_REC = op('OP_TRUE') + op('OP_CALL', 9)
PROBES['callstack_limit'] = (op('OP_DEF', 9) + L2(_REC) + _REC + op('OP_TRY_EXCEPT') + L2(op('OP_CALL', 9)) + op('OP_CALL', 9) +
                             b'\x00\x00' + op('OP_DEPTH') + W(b'd') + op('OP_DEPTH') + op('OP_POP0') + op('OP_POP0') * 0, 'calllimit', None)


def configs_for(kind, param):
    if kind == 'flag':
        return [('off', {'additional_flags': {param: False}}), ('default', {})]
    if kind == 'flag10':
        return [('off', {'additional_flags': {10: False}, 'plug': True}), ('default', {'plug': True})]
    if kind == 'threshold':
        return [('5', {'additional_flags': {param: 5}}), ('default', {})]
    if kind == 'noeval':
        return [('set', {'additional_flags': {'disallow_OP_EVAL': True}}), ('default', {})]
    if kind == 'evalreturn':
        return [('set', {'additional_flags': {'eval_return': True}}), ('default', {})]
    if kind == 'sigplugin':
        # flag 10 is documented for CHECK_TEMPLATE(_VERIFY) only: every other signature instruction runs the plugins regardless
        return [('plugin', {'plug': True}), ('plugin-flag10-off', {'plug': True, 'additional_flags': {10: False}})]
    if kind == 'ctplugin':
        return [('plugin', {'ctplug': True}), ('default', {})]
    if kind in ('invoke', 'transfer'):
        return [('contract', {})]
    if kind == 'calllimit':
        return [('limit6', {'callstack_limit': 6}), ('limit9', {'callstack_limit': 9})]
    raise KeyError(kind)


def run_probe(pname, word, cfgname, extra_code=b'', code_override=None):
    code, kind, param = PROBES[pname]
    cfg = dict(configs_for(kind, param))[cfgname]
    full = nest(tuple(word), (extra_code + code) if code_override is None else code_override)
    counts = {'sig': 0, 'ct': 0}

    def sigplug(tape, stack, cache):
        counts['sig'] += 1

    def ctplug(tape, stack, cache):
        counts['ct'] += 1
        return True
    inv, tr = Invokable(), Transfer()
    plugins = {}
    if cfg.get('plug'):
        plugins['signature_extensions'] = [sigplug]
    if cfg.get('ctplug'):
        plugins['check_template'] = [ctplug]
    flags = cfg.get('additional_flags', {})
    cache = {'timestamp': NOW + 30, 'sigfield1': b'abc'}
    tape = F.Tape(full, callstack_limit=cfg.get('callstack_limit', 128))
    tape.contracts = {**F._contracts, CID: inv, CID2: tr}
    tape.plugins = {**F._plugins, **plugins}
    stack = F.Stack()
    env.pin_clock(NOW)
    err = None
    try:
        F.run_tape(tape, stack, cache, additional_flags=dict(flags))
    except BaseException as e:  # noqa
        if isinstance(e, (KeyboardInterrupt, SystemExit)):
            raise
        err = type(e).__name__ + ':' + str(e)[:50]
    finally:
        env.unpin_clock()
    return dict(cache=cache, err=err, sig=counts['sig'], ct=counts['ct'], inv=inv.calls, tr=tr.calls, flags=dict(tape.flags),
                given=dict(flags))


def expected_flags(given):
    exp = {}
    for k, v in F.flags.items():
        exp[k] = v if k in F.flags_to_set else False
    exp.update(given)
    return exp


def judge(pname, word, cfgname, _attr=True, code_override=None):
    """-> list of (signature, detail)"""
    code, kind, param = PROBES[pname]
    r = run_probe(pname, word, cfgname, code_override=code_override)
    fails = []
    c = r['cache']
    where = '%s in [%s] cfg %s' % (pname, ' > '.join(word) or 'top level', cfgname)
    ctxkind = '+'.join(sorted(set(word))) if len(set(word)) <= 1 else 'nested'
    last = word[-1] if word else 'top'

    def bad(what, detail=''):
        fails.append(('config/%s/%s' % (kind, what), '%s %s (err %r)' % (where, detail, r['err'])))
    if kind == 'calllimit' and sum(CALLLIKE.get(w, 0) for w in word) >= (6 if cfgname == 'limit6' else 9):
        return []         # the context alone uses up the call budget: nothing to observe
    if kind not in ('noeval',) and r['err'] is not None and not (kind == 'evalreturn'):
        bad('probe-raised', '')
        return fails
    if kind == 'flag':
        key = FLAGKEYS[param]
        present = key in c
        if cfgname == 'off' and present:
            bad('disabled-flag-%d-still-writes-its-cache-key' % param if False else 'flag-turned-off-is-on-again', 'flag %d key %r written' % (param, key))
        if cfgname == 'default' and not present:
            bad('default-flag-not-effective', 'flag %d key %r not written' % (param, key))
    elif kind == 'flag10':
        want = 0 if cfgname == 'off' else 1
        if r['sig'] != want:
            bad('flag-10-plugin-count', 'signature plugin ran %d times, expected %d' % (r['sig'], want))
    elif kind == 'threshold':
        want = [b'\x00'] if cfgname == '5' else [b'\xff']
        if c.get(b'r') != want:
            bad('embedder-threshold-not-applied', '%s: result %r expected %r' % (param, c.get(b'r'), want))
    elif kind == 'noeval':
        ran = b'ev' in c
        if cfgname == 'set' and ran:
            bad('disallowed-EVAL-executed', '')
        if cfgname == 'default' and not ran:
            bad('EVAL-did-not-run-by-default', '')
    elif kind == 'evalreturn':
        if b'in' not in c:
            bad('probe-did-not-run', '')
        elif cfgname == 'set' and b'after' in c:
            bad('eval_return-not-honoured', 'instruction after EVAL ran')
        elif cfgname == 'default' and b'after' not in c:
            bad('RETURN-inside-EVAL-ended-the-caller-without-eval_return', '')
    elif kind == 'sigplugin':
        want = 0 if (cfgname == 'plugin-flag10-off' and 'CHECK_TEMPLATE' in pname) else 1
        if r['sig'] != want:
            bad('signature-plugin-count', 'ran %d times, expected exactly %d' % (r['sig'], want))
    elif kind == 'ctplugin':
        if cfgname == 'plugin' and (r['ct'] != 1 or c.get(b'r') != [b'\xff']):
            bad('check_template-plugin-not-used', 'calls %d verdict %r' % (r['ct'], c.get(b'r')))
        if cfgname == 'default' and c.get(b'r') != [b'\x00']:
            bad('check_template-default-comparison', '%r' % (c.get(b'r'),))
    elif kind == 'invoke':
        if r['inv'] != 1 or c.get(b'ir') != [b'\x2a']:
            bad('contract-not-reachable', 'INVOKE calls %d result %r' % (r['inv'], c.get(b'ir')))
    elif kind == 'transfer':
        if r['tr'] != 1 or c.get(b'tr') != [b'\xff']:
            bad('contract-not-reachable', 'CHECK_TRANSFER calls %d result %r' % (r['tr'], c.get(b'tr')))
    elif kind == 'calllimit':
        limit = 6 if cfgname == 'limit6' else 9
        used = sum(CALLLIKE.get(w, 0) for w in word)
        want = max(0, limit - used)
        got = c.get(b'd')
        gotn = int.from_bytes(got[0], 'big') if got else None
        if gotn != want:
            bad('callstack-limit-not-uniform', 'reached depth %r, expected %d (limit %d, %d used by the context)' % (gotn, want, limit, used))
    # flags of the top tape after the run
    if r['err'] is None or kind in ('noeval',):
        exp = expected_flags(r['given'])
        if r['flags'] != exp:
            diff = {k: (r['flags'].get(k, '<absent>'), exp.get(k, '<absent>')) for k in set(exp) | set(r['flags']) if r['flags'].get(k, '<absent>') != exp.get(k, '<absent>')}
            fails.append(('config/top-tape-flags-changed-by-the-run', '%s: {flag: (after, configured)} = %r' % (where, diff)))
    if fails and _attr and len(word) >= 1:
        # root-cause attribution: the first single construct of the context that reproduces the same failure alone
        out = []
        for sig, det in fails:
            culprit = 'combination'
            for w in word:
                if any(s2 == sig for s2, _ in judge(pname, (w,), cfgname, _attr=False)):
                    culprit = w
                    break
            out.append((sig + '/lost-in:' + culprit, det))
        return out
    if fails and _attr:
        return [(sig + '/at-top-level', det) for sig, det in fails]
    return fails


PERSIST = ['LOOP', 'DEFCALL', 'IF', 'TRY', 'EVAL']
PLACEMENTS = ([('direct', None)] + [('persist', x) for x in PERSIST] + [('inherit', y) for y in CTX] +
              [('viafn', y) for y in CTX] + [('noopcall', y) for y in CTX] + [('loopcarry', None), ('loopcarry', 'fn')])
_IDLE = op('OP_TRUE') + op('OP_POP0')


def judge_flagop(opname, k, word, placement=('direct', None)):
    """SET_FLAG / UNSET_FLAG k must change exactly integer flag k (observed through the flag probes), and nothing but
    a flag instruction changes it afterwards: the new state survives constructs that follow at the same level
    (persist) and is the state seen inside bodies entered afterwards (inherit)."""
    fails = []
    flagop = bytes([C[opname], 1, k])
    probes = {0: 'flag0', 1: 'flag1', 2: 'flag2', 3: 'flag3', 4: 'flag4', 5: 'flag5', 6: 'flag6', 7: 'flag7', 8: 'flag8', 9: 'flag9-sign',
              10: 'flag10'}
    how, arg = placement
    pname = probes[k]
    pcode = PROBES[pname][0]
    if how == 'direct':
        code = flagop + pcode
        what = 'does-not-%s-the-integer-flag' % ('set' if opname == 'OP_SET_FLAG' else 'unset')
    elif how == 'persist':
        code = flagop + wrap(arg, _IDLE) + pcode
        what = 'undone-by-a-following-%s' % arg
    elif how == 'inherit':
        code = flagop + wrap(arg, pcode)
        what = 'not-seen-inside-a-following-%s' % arg
    elif how == 'viafn':
        # the flag instruction sits in a function that is called inside the construct, right before the probe: as at top
        # level, it acts on the flags its caller runs with
        code = op('OP_DEF', 8) + L2(flagop) + flagop + wrap(arg, op('OP_CALL', 8) + pcode)
        what = 'in-a-function-called-inside-%s-does-not-act-on-the-caller' % arg
    elif how == 'loopcarry':
        # the instruction runs at the end of the first iteration of a two-iteration LOOP, the probe in the second one
        # (inside an IF entered after the instruction): nothing but a flag instruction changes the flag in between
        act = flagop if arg is None else op('OP_CALL', 8)
        body = op('OP_POP0') + op('OP_IF') + L2(pcode) + pcode + act
        code = ((op('OP_DEF', 8) + L2(flagop) + flagop if arg else b'') + op('OP_FALSE') + op('OP_TRUE') + op('OP_TRUE') + op('OP_FALSE') + op('OP_TRUE') +
                op('OP_LOOP') + L2(body) + body + op('OP_POP0'))
        what = 'lost-between-two-iterations-of-a-LOOP' + ('-when-in-a-called-function' if arg else '')
    elif how == 'noopcall':
        # metamorphic: calling an unrelated idle function next to the flag instruction changes nothing that is observed
        # after the construct (whatever scoping the construct has)
        idle = op('OP_DEF', 8) + L2(_IDLE) + _IDLE
        cfg = 'off' if opname == 'OP_SET_FLAG' else 'default'
        r1 = run_probe(pname, word, cfg, code_override=idle + wrap(arg, flagop) + pcode)
        r2 = run_probe(pname, word, cfg, code_override=idle + wrap(arg, flagop + op('OP_CALL', 8)) + pcode)
        if r1['err'] is None and r2['err'] is None:
            on1 = (r1['sig'] >= 1) if k == 10 else (FLAGKEYS[k] in r1['cache'])
            on2 = (r2['sig'] >= 1) if k == 10 else (FLAGKEYS[k] in r2['cache'])
            if on1 != on2:
                fails.append(('flag-instruction/CALL-of-an-idle-function-changes-a-flag-outside-%s' % arg,
                              '%s %d in %r: after the construct %s without the call, %s with it' % (
                                  opname[3:], k, word, 'on' if on1 else 'off', 'on' if on2 else 'off')))
        return fails
    else:
        raise ValueError('placement')
    # SET is observed against a configuration that turned the flag off, UNSET against the default (on)
    r = run_probe(pname, word, 'off' if opname == 'OP_SET_FLAG' else 'default', code_override=code)
    if r['err'] is not None:
        fails.append(('flag-instruction/%s-raises-for-an-integer-flag' % opname[3:], 'flag %d in %r (%s %s): %s' % (k, word, how, arg, r['err'])))
    else:
        on = (r['sig'] >= 1) if k == 10 else (FLAGKEYS[k] in r['cache'])
        if on != (opname == 'OP_SET_FLAG'):
            fails.append(('flag-instruction/%s-%s' % (opname[3:], what), 'flag %d in %r: observed %s' % (k, word, 'on' if on else 'off')))
    if how == 'direct':
        # other flags untouched: a neighbour probe keeps its behaviour
        other = (k + 1) % 10
        r = run_probe(probes[other], word, 'off', extra_code=flagop)
        if r['err'] is None and FLAGKEYS[other] in r['cache']:
            fails.append(('flag-instruction/%s-changes-another-flag' % opname[3:], 'op on %d re-enabled %d' % (k, other)))
    return fails


def check_case(case):
    k = case['check']
    if k == 'probe':
        word = tuple(case['context'])
        if any(w not in CTX for w in word) or len(word) > 6 or case['probe'] not in PROBES:
            raise ValueError('domain')
        code, kind, param = PROBES[case['probe']]
        if case['config'] not in dict(configs_for(kind, param)):
            raise ValueError('config')
        return judge(case['probe'], word, case['config'])
    if k == 'flagop':
        word = tuple(case['context'])
        if any(w not in CTX for w in word) or case['op'] not in ('OP_SET_FLAG', 'OP_UNSET_FLAG') or not 0 <= case['flag'] <= 10:
            raise ValueError('domain')
        pl = tuple(case.get('placement') or ('direct', None))
        if pl not in PLACEMENTS:
            raise ValueError('placement')
        return judge_flagop(case['op'], case['flag'], word, pl)
    if k == 'named':
        return check_named(case)
    if k == 'budget':
        return check_budget(case)
    raise ValueError(k)


def _all_cases(words):
    for word in words:
        for pname, (code, kind, param) in PROBES.items():
            for cfgname, _ in configs_for(kind, param):
                yield word, pname, cfgname


def _do(ctx, word, pname, cfgname):
    try:
        fails = judge(pname, word, cfgname)
    except env.SEE:
        raise
    nt = len(word) >= 1 and cfgname != 'default'
    ctx.case(('probe', word, pname, cfgname), nt)
    ctx.count('depth:%d' % len(word))
    for s, d in fails:
        ctx.fail('probe', s, {'check': 'probe', 'context': list(word), 'probe': pname, 'config': cfgname}, d)
    if nt and len(word) == 3 and pname in ('flag1', 'sigplugin:SIGN') and word[0] == 'TRY' and word[2] == 'LOOP':
        ctx.sample({'context': list(word), 'probe': pname, 'config': cfgname})


def task_contexts(ctx):
    maxd = 3
    words = [()] + [w for d in range(1, maxd + 1) for w in itertools.product(CTX, repeat=d)]
    n = 0
    for i, word in enumerate(words):
        if i % ctx.nshards != ctx.shard:
            continue
        for pname, (code, kind, param) in PROBES.items():
            for cfgname, _ in configs_for(kind, param):
                _do(ctx, word, pname, cfgname)
                n += 1
    ctx.exhaustive['contexts of depth <= 3 x probes x configurations'] = n
    if ctx.thorough():
        m = 0
        for i, word in enumerate(itertools.product(CTX, repeat=4)):
            if i % ctx.nshards != ctx.shard:
                continue
            for pname, (code, kind, param) in PROBES.items():
                if len(code) > 120:
                    continue
                for cfgname, _ in configs_for(kind, param):
                    _do(ctx, word, pname, cfgname)
                    m += 1
        ctx.exhaustive['contexts of depth 4 x short probes x configurations'] = m


def task_flagops(ctx):
    words = [()] + [w for d in range(1, 3) for w in itertools.product(CTX, repeat=d)]
    n = 0
    for i, word in enumerate(words):
        if i % ctx.nshards != ctx.shard:
            continue
        for opname in ('OP_SET_FLAG', 'OP_UNSET_FLAG'):
            for k in range(11) if len(word) <= 1 else (1, 9, 10):
                for pl in PLACEMENTS:
                    fails = judge_flagop(opname, k, word, pl)
                    ctx.case(('flagop', word, opname, k, pl), True)
                    ctx.count('flagop-placement:' + pl[0])
                    n += 1
                    for s, d in fails:
                        ctx.fail('flagop', s, {'check': 'flagop', 'context': list(word), 'op': opname, 'flag': k, 'placement': list(pl)}, d)
    ctx.exhaustive['flag instruction x integer flag 0-10 x contexts of depth <= 2 x placement (direct, 5 persist, 11 inherit, 11 via function, 11 idle call, 2 loop-carried)'] = n
    ctx.sample({'check': 'flagop', 'context': ['IF'], 'op': 'OP_UNSET_FLAG', 'flag': 1})


NAMED = {'disallow_OP_EVAL': ('disallow_OP_EVAL', 'set'), 'eval_return': ('eval_return', 'set'), 'ts_threshold': ('ts_threshold', '5'),
         'epoch_threshold': ('epoch_threshold', '5')}
NAMED_PLACES = ['direct', 'LOOP', 'DEFCALL', 'LOOP>DEFCALL']


def judge_named(opname, name, word, place):
    """A flag instruction whose operand spells the NAME of an embedder setting (disallow_OP_EVAL, eval_return, the two
    thresholds) is not one of the documented integer-flag instructions: whatever it does (today: an error for SET, nothing
    for UNSET), the embedder's setting still governs the probe that follows."""
    pname, cfg = NAMED[name]
    flagop = bytes([C[opname], len(name)]) + name.encode()
    pre = flagop
    for w in reversed([x for x in place.split('>') if x != 'direct']):
        pre = wrap(w, pre)
    # does the instruction raise? (observed at top level: inside a TRY context the error would be swallowed with the probe)
    r0 = run_probe(pname, (), cfg, code_override=pre)
    if r0['err'] is not None:
        return None
    return [(s_.replace('config/', 'flag-instruction/named-operand-%s/' % name), d) for s_, d in
            judge(pname, word, cfg, _attr=False, code_override=pre + PROBES[pname][0])]


def check_named(case):
    word = tuple(case['context'])
    if any(w not in CTX for w in word) or case['op'] not in ('OP_SET_FLAG', 'OP_UNSET_FLAG') or case['name'] not in NAMED or case['place'] not in NAMED_PLACES:
        raise ValueError('domain')
    return judge_named(case['op'], case['name'], word, case['place']) or []


def task_named(ctx):
    words = [()] + [w for d in range(1, 3) for w in itertools.product(CTX, repeat=d)]
    n = 0
    for i, word in enumerate(words):
        if i % ctx.nshards != ctx.shard:
            continue
        for opname in ('OP_SET_FLAG', 'OP_UNSET_FLAG'):
            for name in NAMED:
                for place in NAMED_PLACES:
                    fails = judge_named(opname, name, word, place)
                    ctx.case(('named', word, opname, name, place), fails is not None)
                    ctx.count('named-flag-operand:' + ('instruction raises' if fails is None else 'instruction runs'))
                    n += 1
                    for s_, d in fails or []:
                        ctx.fail('named', s_, {'check': 'named', 'context': list(word), 'op': opname, 'name': name, 'place': place}, d)
    ctx.exhaustive['SET / UNSET_FLAG with an operand spelling an embedder setting x 4 settings x 4 places x contexts of depth <= 2'] = n


CALLS4 = ['DEFCALL', 'EVAL', 'MERKLEVAL', 'TAPROOT']
FILLERS = ['IF', 'IFELSE_E', 'TRY', 'EXCEPT', 'LOOP']


def check_budget(case):
    """Under call-stack limit L a nest of k call-like constructs (function call, EVAL, MERKLEVAL, TAPROOT script path - in
    any mixture, with conditional / try / loop bodies in between) reaches its innermost body exactly when k <= L."""
    word, L = tuple(case['context']), case['limit']
    if any(w not in CTX for w in word) or 'SELFCALL' in word or not 1 <= L <= 8:
        raise ValueError('domain')
    k = sum(1 for w in word if w in CALLS4)
    code = nest(word, op('OP_TRUE') + W(b'mk'))
    tape, stack, cache = F.Tape(code, callstack_limit=L), F.Stack(), {}
    err = None
    try:
        F.run_tape(tape, stack, cache)
    except BaseException as e:  # noqa
        if isinstance(e, (KeyboardInterrupt, SystemExit)):
            raise
        err = type(e).__name__
    ran = b'mk' in cache
    if ran != (k <= L):
        return [('limits/callstack-limit/%s' % ('body-runs-beyond-the-limit' if ran else 'body-refused-within-the-limit'),
                 'limit %d, %d call-like constructs in %r (err %r)' % (L, k, word, err))]
    if k > L and err is None and not any(w in ('TRY',) for w in word):
        return [('limits/callstack-limit/no-error-beyond-the-limit', 'limit %d in %r' % (L, word))]
    return []


def task_budget(ctx):
    n = 0
    idx = 0
    for L in (1, 2, 3):
        for k in (L - 1, L, L + 1):
            if k < 1:
                continue
            for base in itertools.product(CALLS4, repeat=k):
                variants = [base] + [base[:pos] + (f,) + base[pos:] for pos in range(k + 1) for f in FILLERS]
                for word in variants:
                    idx += 1
                    if idx % ctx.nshards != ctx.shard:
                        continue
                    case = {'check': 'budget', 'context': list(word), 'limit': L}
                    fails = check_budget(case)
                    ctx.case(('budget', word, L), True)
                    ctx.count('call-budget:' + ('within' if k <= L else 'beyond'))
                    n += 1
                    for s_, d in fails:
                        ctx.fail('budget', s_, case, d)
    ctx.exhaustive['nests of L-1 / L / L+1 call-like constructs (4 kinds, every mixture) under limit L = 1..3, plain and with one IF / ELSE / TRY / EXCEPT / LOOP body at every position'] = n


def task_deep(ctx):
    """drawn contexts of depth 4-5 (6 in thorough)."""
    from .. import hyp
    from hypothesis import strategies as st
    names = [p for p, (code, kind, param) in PROBES.items() if len(code) <= 120]
    depths = [4, 5] if not ctx.thorough() else [5, 6]
    strat = st.tuples(st.sampled_from(depths).flatmap(lambda d: st.tuples(*[st.sampled_from(CTX)] * d)), st.sampled_from(names),
                      st.integers(0, 1))

    def one(t):
        word, pname, ci = t
        code, kind, param = PROBES[pname]
        cfgs = configs_for(kind, param)
        try:
            _do(ctx, tuple(word), pname, cfgs[ci % len(cfgs)][0])
        except ValueError:
            pass
    hyp.drive(strat, one, ctx.n(2000, 60000), ctx.seed)


TASKS = {'contexts': (task_contexts, 16, 16), 'flagops': (task_flagops, 4, 8), 'named': (task_named, 2, 4), 'budget': (task_budget, 2, 4), 'deep': (task_deep, 8, 16)}
