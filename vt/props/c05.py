"""C05 - taproot: the root binds key and script; key path and script path are exact."""
from __future__ import annotations
import hashlib
from .. import env, hyp, optable as O, refasm as R, render, ed25519_ref as E, monitors
from ..recorder import Rec, CID, push, observed
from .c01 import script_tree
from .c02 import msg_of
from hypothesis import strategies as st
from ..gen import dict_order as gen_dict_order

F, T = env.F, env.T
C = O.CODES
ID = 'C05'
LEVEL = 'exploration'
RULE = ('Hypothesis cases over internal seeds, committed scripts (recorder prefix + generated body), sigfield sets, '
        'flag / allowed pairs and witness kinds: builder key-spend, builder script-spend + inner pre-witness (plain items, or '
        'definitions of functions 3 / 200 which the committed script calls), '
        'negative families (signature by the untweaked internal key / another key / over other sigfields / with a '
        'non-permitted flag / one bit flipped in signature or root; other script, other key, pair from another lock, '
        '32-byte non-point, empty script - all as pure-push witnesses) and adversarial witnesses of the C01 family for '
        'native vs non-native. Oracles: root = P + clamp(sha256(P || sha256(S)))*G recomputed with the pure-Python '
        'reference for make_taproot_lock / make_nonnative_taproot_lock / make_graftap_lock; key path true <=> RFC 8032 '
        'valid under the root with permitted flags (an accepted key spend is replayed in the same process with a covered sigfield changed: rejected; sigfield dicts are filled in a drawn order); committed script starts (recording contract) <=> the pair recomputes '
        'to the root; builder witnesses unlock; native verdict == non-native verdict. non-trivial = a corruption or an '
        'adversarial-witness feature is present, or flag != 0; distinct by case parameters.')
ASSUMPTIONS = ['vt/ed25519_ref.py for point arithmetic and signature validity', 'native vs non-native is compared at the '
               'default stack limits (the non-native script needs four more stack slots) and for witnesses that leave a '
               'call budget >= 2']

sha = lambda b: hashlib.sha256(b).digest()  # noqa: E731


def ref_root(P, script_bytes):
    t = E.scalar_int(E.clamp(sha(P + sha(script_bytes)))) % E.L
    Pp = E.dec(P)
    return E.enc(E.add(Pp, E.mul(t, E.G)))


def lock_root(lock_bytes, kind):
    prog = R.decode(lock_bytes)
    if kind == 'native':
        # push <root> ; TAPROOT flags
        return prog[0][2], prog[1][2]
    # def 0 { push root } ...
    return prog[0][2][0][2], None


BODIES = [bytes([C['OP_TRUE']]), bytes([C['OP_FALSE']]), bytes([C['OP_VERIFY']]), bytes([C['OP_PUSH0'], 7, C['OP_EQUAL']]),
          bytes([C['OP_POP0'], C['OP_TRUE']]), bytes([C['OP_DEPTH'], C['OP_PUSH0'], 0, C['OP_EQUAL']])]
PRES = [b'', bytes([C['OP_TRUE']]), bytes([C['OP_PUSH0'], 7])]
# preludes chosen by the case key 'pre' (cases without it keep k1 % 3): the witness defines function 3 / 200 before the
# committed script runs; the committed script sees the definitions exactly as a script following the prelude would
PRES2 = PRES + [bytes([C['OP_DEF'], 3, 0, 1, C['OP_TRUE']]), bytes([C['OP_DEF'], 200, 0, 2, C['OP_PUSH0'], 7]),
                bytes([C['OP_DEF'], 3, 0, 1, C['OP_TRUE'], C['OP_DEF'], 200, 0, 2, C['OP_PUSH0'], 7])]
CALL_BODIES = [bytes([C['OP_CALL'], 3]), bytes([C['OP_CALL'], 200, C['OP_PUSH0'], 7, C['OP_EQUAL']]),
               bytes([C['OP_CALL'], 200, C['OP_POP0'], C['OP_CALL'], 3]),
               bytes([C['OP_TRUE'], C['OP_IF'], 0, 2, C['OP_CALL'], 3])]


def auth(scripts, fields):
    rec = Rec()
    ok = F.run_auth_scripts([s for s in scripts if s], dict(fields), {CID: rec})
    return ok, rec.seen


def mk_locks(pk, S, flags):
    fl = '%02x' % flags
    return {'native': T.make_taproot_lock(pk, S, sigflags=fl).bytes, 'nonnative': T.make_nonnative_taproot_lock(pk, S, sigflags=fl).bytes}


def _touches_handle0(code, depth=0):
    """CALL 0 or DEF 0 anywhere in the program (blocks, and pushed byte strings that decode as programs)"""
    try:
        prog = R.decode(code)
    except R.DecodeError:
        return bytes([C['OP_CALL'], 0]) in code or bytes([C['OP_DEF'], 0]) in code

    def walk(nodes):
        for n in nodes:
            if n[0] == 'i':
                if n[1] == C['OP_CALL'] and n[2] == 0:
                    return True
                if depth < 3:
                    for x in n[2:]:
                        if isinstance(x, bytes) and len(x) >= 2 and _touches_handle0(x, depth + 1):
                            return True
            elif n[0] == 'def':
                if n[1] == 0 or walk(n[2]):
                    return True
            else:
                for x in n[1:]:
                    if isinstance(x, list) and walk(x):
                        return True
        return False
    return walk(prog)


# D26 (open): the non-native lock keeps its root in function 0, which the committed script and the witness can see / shadow
_COLLISION = 'taproot/nonnative/function-handle-0-of-the-lock-visible-to-the-scripts'


_COLLISION_X = 'taproot/nonnative/cache-entry-X-of-the-lock-visible-to-the-scripts'


def _touches_key_X(code, depth=0):
    """an operand or pushed item equal to b'X' (the key under which the lock's DERIVE_POINT caches the tweak point)"""
    try:
        prog = R.decode(code)
    except R.DecodeError:
        return b'\x01X' in code

    def walk(nodes):
        for n in nodes:
            if n[0] == 'i':
                for x in n[2:]:
                    if x == b'X' or (depth < 3 and isinstance(x, bytes) and len(x) >= 3 and _touches_key_X(x, depth + 1)):
                        return True
            else:
                for x in n[1:]:
                    if isinstance(x, list) and walk(x):
                        return True
        return False
    return walk(prog)


def _reclassify_handle0(fails, codes):
    if not fails:
        return fails
    new = _COLLISION if any(_touches_handle0(c) for c in codes) else (_COLLISION_X if any(_touches_key_X(c) for c in codes) else None)
    if new is None:
        return fails
    out = []
    for sgn, det in fails:
        if sgn.startswith(('taproot/nonnative/script-path-verdict-differs-from-script', 'taproot/native-and-nonnative-verdicts-differ',
                           'taproot/native-and-nonnative-run-different-scripts')):
            sgn = new
        out.append((sgn, det))
    return out


def check_taproot(case):
    fails = []
    seed, body, fields, flag, allowed = case['seed'], case['body'], case['fields'], case['flag'] & 0xff, case['allowed'] & 0xff
    kind, k1 = case['kind'], case.get('k1', 0)
    if body not in BODIES and body not in CALL_BODIES and not monitors.within_budget([body], fields):
        return fails, {'skip': True}          # a committed script whose work explodes (see monitors.BudgetMonitor)
    tag = b'\x77\x01'
    Sb = observed(tag, body)
    S = T.Script.from_bytes(Sb)
    pk = E.pub(seed)
    locks = mk_locks(pk, S, allowed)
    root = ref_root(pk, Sb)
    # (1) algebra
    for lk in ('native', 'nonnative'):
        r, fl = lock_root(locks[lk], lk)
        if r != root:
            fails.append(('taproot/%s-lock-root-is-not-P+clamp(h(P||h(S)))G' % lk, '%s vs %s' % (r.hex(), root.hex())))
            return fails, {}
    if case.get('graftap'):
        gl = T.make_graftap_lock(pk, '%02x' % allowed).bytes
        gs = T._make_graftap_committed_script(pk).bytes
        if lock_root(gl, 'native')[0] != ref_root(pk, gs):
            fails.append(('taproot/graftap-lock-root-wrong', ''))
    info = {}
    m = msg_of(fields, flag)
    permitted = (flag & ~allowed) & 0xff == 0
    verdicts = {}
    for lk, lock in locks.items():
        exp_seen = []
        if kind == 'keyspend':
            if flag == 0xff:
                return fails, {'skip': True}
            w = T.make_taproot_witness_keyspend(seed, dict(fields), S, sigflags='%02x' % flag).bytes
            sig = R.decode(w)[0][2]
            if not E.verify(root, m, sig[:64]):
                fails.append(('taproot/keyspend-witness-is-not-a-valid-signature-under-the-root', ''))
            want = permitted
        elif kind in ('sig-internal-key', 'sig-other-key', 'sig-other-fields', 'sig-bitflip', 'root-bitflip'):
            x = E.scalar_int(E.derive_key_from_seed(seed))
            t = E.scalar_int(E.clamp(sha(pk + sha(Sb)))) % E.L
            from nacl.signing import SigningKey
            if kind == 'sig-internal-key':
                sig = SigningKey(seed).sign(m).signature
            elif kind == 'sig-other-key':
                sig = SigningKey(sha(seed)).sign(m).signature
            else:
                sig = F.sign_with_scalar(E.scalar_bytes(x + t), m if kind != 'sig-other-fields' else m + b'x')
            if kind == 'sig-bitflip':
                b = bytearray(sig)
                b[(k1 // 8) % 64] ^= 1 << (k1 % 8)
                sig = bytes(b)
            if kind == 'root-bitflip':
                lb = bytearray(lock)
                off = lock.index(root)
                lb[off + (k1 // 8) % 32] ^= 1 << (k1 % 8)
                lock = bytes(lb)
            w = push(sig + (bytes([flag]) if flag else b''))
            want = False
        elif kind == 'scriptspend':
            w = T.make_taproot_witness_scriptspend(pk, S).bytes
            pre = PRES2[case['pre'] % len(PRES2)] if 'pre' in case else PRES[k1 % 3]
            rec = Rec()
            want = F.run_auth_scripts([s for s in (pre, Sb) if s], dict(fields), {CID: rec})
            w = pre + w
            exp_seen = [tag]
        elif kind in ('other-script', 'other-key', 'foreign-pair', 'non-point', 'empty-script', 'script-bitflip', 'tiny-script'):
            S2b = observed(b'\x78\x02', bytes([C['OP_TRUE']]))
            otherpk = E.pub(sha(seed))
            if kind == 'other-script':
                items = (S2b, pk)
            elif kind == 'tiny-script':
                # every script length 1..48: a script that would authorise if it ran
                for n in range(1, 49):
                    tiny = (bytes([C['OP_TRUE']]) if n % 2 else bytes([C['OP_PUSH0'], 0xff])) + bytes([C['OP_POP0'], C['OP_TRUE']]) * ((n - 1) // 2)
                    if auth([push(tiny) + push(pk), lock], fields)[0]:
                        fails.append(('taproot/%s/uncommitted-pair-authorises/tiny-script' % lk, 'script length %d' % n))
                        break
                items = (bytes([C['OP_TRUE']]), pk)
            elif kind == 'other-key':
                items = (Sb, otherpk)
            elif kind == 'foreign-pair':
                items = (S2b, otherpk)
            elif kind == 'non-point':
                bad = bytearray(pk)
                bad[k1 % 31] ^= 1 << (k1 % 8)
                items = (Sb, bytes(bad))
            elif kind == 'script-bitflip':
                b = bytearray(Sb)
                b[(k1 // 8) % len(b)] ^= 1 << (k1 % 8)
                items = (bytes(b), pk)
            else:
                items = (b'', pk)
            w = (push(items[0]) if items[0] else bytes([C['OP_PUSH1'], 0])) + push(items[1])
            # reference decision
            try:
                match = E.dec(items[1]) is not None and ref_root(items[1], items[0]) == root
            except Exception:
                match = False
            if match:
                return fails, {'skip': True}
            want = False
        else:
            raise ValueError(kind)
        ok, seen = auth([w, lock], fields)
        verdicts[lk] = ok
        if kind == 'keyspend':
            if want and not ok:
                fails.append(('taproot/%s/builder-keyspend-rejected' % lk, 'flag %02x allowed %02x' % (flag, allowed)))
            elif not want and ok:
                fails.append(('taproot/%s/non-permitted-flag-accepted' % lk, 'flag %02x allowed %02x' % (flag, allowed)))
            if seen:
                fails.append(('taproot/%s/key-path-runs-a-script' % lk, '%r' % (seen,)))
            # the accepted witness again, in the same process, with one covered sigfield changed: the signature does not
            # cover these contents (no verdict is remembered per signature)
            cov = [k for k in sorted(fields) if not (flag >> (int(k[-1]) - 1)) & 1]
            if ok and cov:
                f2 = dict(fields)
                f2[cov[k1 % len(cov)]] = fields[cov[k1 % len(cov)]] + b'!'
                info['replayed'] = True
                if auth([w, lock], f2)[0]:
                    fails.append(('taproot/%s/key-spend-accepted-for-other-sigfield-contents' % lk, 'changed %s' % cov[k1 % len(cov)]))
        elif kind.startswith('sig-') or kind == 'root-bitflip':
            if ok:
                fails.append(('taproot/%s/key-path-accepts-%s' % (lk, kind), 'k1=%d' % k1))
        elif kind == 'scriptspend':
            if seen != exp_seen:
                fails.append(('taproot/%s/script-path-does-not-run-the-committed-script' % lk, 'ran %r' % (seen,)))
            elif ok != want:
                fails.append(('taproot/%s/script-path-verdict-differs-from-script' % lk, 'lock %r script alone %r' % (ok, want)))
        else:
            if seen:
                fails.append(('taproot/%s/uncommitted-script-executes/%s' % (lk, kind), 'ran %r' % (seen,)))
            if ok:
                fails.append(('taproot/%s/uncommitted-pair-authorises/%s' % (lk, kind), ''))
    if len(set(verdicts.values())) > 1:
        fails.append(('taproot/native-and-nonnative-verdicts-differ/%s' % kind, '%r' % (verdicts,)))
    return _reclassify_handle0(fails, [Sb]), info


def check_graftap(case):
    """graftap key and script spends through the builders."""
    fails = []
    seed, fields, flag = case['seed'], case['fields'], case['flag'] & 0x7f
    pk = E.pub(seed)
    lock = T.make_graftap_lock(pk, '%02x' % flag).bytes
    wk = T.make_graftap_witness_keyspend(seed, dict(fields), '%02x' % flag).bytes
    if not auth([wk, lock], fields)[0]:
        fails.append(('graftap/keyspend-rejected', 'flag %02x' % flag))
    sur = T.Script.from_bytes(observed(b'\x66\x06', bytes([C['OP_TRUE']])))
    ws = T.make_graftap_witness_scriptspend(seed, sur).bytes
    ok, seen = auth([ws, lock], fields)
    if not ok or seen != [b'\x66\x06']:
        fails.append(('graftap/scriptspend-rejected-or-surrogate-not-run', '%r %r' % (ok, seen)))
    # surrogate signed by another key
    ws2 = T.make_graftap_witness_scriptspend(sha(seed), sur).bytes
    # replace the pushed internal key / committed script by the lock owner's (so only the surrogate signature is foreign)
    own = T.make_taproot_witness_scriptspend(pk, T._make_graftap_committed_script(pk)).bytes
    foreign_sig_part = ws2[:len(ws2) - len(T.make_taproot_witness_scriptspend(E.pub(sha(seed)), T._make_graftap_committed_script(E.pub(sha(seed)))).bytes)]
    ok, seen = auth([foreign_sig_part + own, lock], fields)
    if ok or seen:
        fails.append(('graftap/surrogate-signed-by-foreign-key-accepted', '%r %r' % (ok, seen)))
    return fails


def check_equiv(case):
    """native == non-native for adversarial witnesses."""
    fails = []
    seed, fields = case['seed'], case['fields']
    try:
        adv = R.encode(render.lower(case['adv']))
    except R.NotEncodable:
        raise ValueError('adv')
    tag = b'\x77\x01'
    Sb = observed(tag, case['body'])
    S = T.Script.from_bytes(Sb)
    pk = E.pub(seed)
    locks = mk_locks(pk, S, 0)
    tail = {'none': b'', 'key': T.make_taproot_witness_keyspend(seed, dict(fields), S).bytes,
            'script': T.make_taproot_witness_scriptspend(pk, S).bytes}[case['tail']]
    w = adv + tail
    if not monitors.within_budget([adv], fields):
        return fails, {'skip': True}          # a witness whose work explodes
    try:
        tp, st_, _ = F.run_script(w, dict(fields), contracts={CID: Rec()})
        if tp.callstack_count > 100 or len(st_) > 900:
            return fails, {'skip': True}
    except BaseException as e:  # noqa
        if isinstance(e, (KeyboardInterrupt, SystemExit)):
            raise
    a, sa = auth([w, locks['native']], fields)
    b, sb = auth([w, locks['nonnative']], fields)
    if a != b:
        fails.append(('taproot/native-and-nonnative-verdicts-differ/adversarial-%s' % case['tail'], 'native %r nonnative %r witness %s' % (a, b, w.hex()[:120])))
    elif (tag in sa) != (tag in sb):
        fails.append(('taproot/native-and-nonnative-run-different-scripts', '%r vs %r' % (sa, sb)))
    return _reclassify_handle0(fails, [Sb, w]), {'verdict': a}


def check_case(case):
    k = case['check']
    if len(case['seed']) != 32:
        raise ValueError('seed')
    if k == 'taproot':
        if len(case['body']) > 300:
            raise ValueError('body')
        return check_taproot(case)[0]
    if k == 'graftap':
        if not case['fields']:
            raise ValueError('fields')
        return check_graftap(case)
    if k == 'equiv':
        return check_equiv(case)[0]
    raise ValueError(k)


KINDS = ['keyspend', 'keyspend', 'scriptspend', 'scriptspend', 'sig-internal-key', 'sig-other-key', 'sig-other-fields',
         'sig-bitflip', 'root-bitflip', 'other-script', 'other-key', 'foreign-pair', 'non-point', 'empty-script',
         'script-bitflip', 'tiny-script', 'tiny-script']


@st.composite
def fields_st(draw):
    f = {'sigfield%d' % i: draw(st.binary(min_size=1, max_size=10)) for i in range(1, 9) if draw(st.integers(0, 2)) == 0}
    return gen_dict_order(draw, f) if f else {'sigfield1': b'msg'}


@st.composite
def body_st(draw):
    r = draw(st.integers(0, 5))
    if r == 0:
        return draw(st.sampled_from(CALL_BODIES))
    if r < 4:
        return draw(st.sampled_from(BODIES))
    t = draw(script_tree(2, True))
    try:
        b = R.encode(render.lower(t))
    except R.NotEncodable:
        return BODIES[0]
    return b if 0 < len(b) <= 200 else BODIES[0]          # never truncate: a cut instruction is not a script


@st.composite
def tap_case(draw):
    flag = draw(st.sampled_from([0, 0, 1, 0x80, 0x03, 0x7f]))
    allowed = draw(st.one_of(st.just(flag), st.just(0xff), st.just(0), st.integers(0, 255)))
    return {'check': 'taproot', 'seed': draw(st.binary(min_size=32, max_size=32)), 'body': draw(body_st()),
            'fields': draw(fields_st()), 'flag': flag, 'allowed': allowed, 'kind': draw(st.sampled_from(KINDS)),
            'k1': draw(st.integers(0, 4095)), 'graftap': draw(st.integers(0, 5)) == 0, 'pre': draw(st.integers(0, len(PRES2) - 1))}


def task_main(ctx):
    def one(c):
        fails, info = check_taproot(c)
        if info.get('skip'):
            return
        nt = c['kind'] not in ('keyspend', 'scriptspend') or c['flag'] != 0
        ctx.case({k: v for k, v in c.items()}, nt)
        ctx.count('kind:' + c['kind'])
        if info.get('replayed'):
            ctx.count('keyspend:accepted witness replayed under changed sigfields')
        if c['kind'] == 'scriptspend' and c['body'] in CALL_BODIES:
            ctx.count('scriptspend:committed script calls a function' + (' the witness defined' if c.get('pre', 0) % len(PRES2) >= 3 else ' nobody defined'))
        for s, d in fails:
            ctx.fail('taproot', s, c, d)
        if nt and len(c['body']) < 30:
            ctx.sample({k: v for k, v in c.items() if k != 'check'})
    hyp.drive(tap_case(), one, ctx.n(3000, 120000), ctx.seed)

    def two(c):
        fails = check_graftap(c)
        ctx.case(('graftap', c['seed'], c['fields'], c['flag']), True)
        ctx.count('kind:graftap')
        for s, d in fails:
            ctx.fail('graftap', s, c, d)
    gs = st.fixed_dictionaries({'check': st.just('graftap'), 'seed': st.binary(min_size=32, max_size=32), 'fields': fields_st(),
                                'flag': st.sampled_from([0, 0, 1, 0x41])})
    hyp.drive(gs, two, ctx.n(300, 10000), ctx.seed + 1)


def task_equiv(ctx):
    strat = st.fixed_dictionaries({'check': st.just('equiv'), 'seed': st.binary(min_size=32, max_size=32), 'fields': fields_st(),
                                   'adv': script_tree(3, True), 'body': st.sampled_from(BODIES),
                                   'tail': st.sampled_from(['none', 'key', 'script', 'script'])})

    def one(c):
        try:
            fails, info = check_equiv(c)
        except ValueError:
            return
        if info.get('skip'):
            ctx.count('equiv:skipped-budget')
            return
        ctx.case((c['seed'], c['adv'], c['body'], c['tail']), True)
        ctx.count('equiv:%s:%s' % (c['tail'], info.get('verdict')))
        for s, d in fails:
            ctx.fail('equiv', s, c, d)
        if info.get('verdict'):
            ctx.sample({k: v for k, v in c.items() if k != 'check'})
    hyp.drive(strat, one, ctx.n(3000, 150000), ctx.seed + 2)


TASKS = {'main': (task_main, 12, 16), 'equiv': (task_equiv, 8, 16)}


def guards(tier, c, evaluations, nnt):
    msgs = []
    if sum(v for k, v in c.items() if k.startswith('equiv:') and k.endswith(':True')) < 30:
        msgs.append('fewer than 30 adversarial witnesses authorise in the native/non-native comparison')
    if c.get('scriptspend:committed script calls a function the witness defined', 0) < 5:
        msgs.append('fewer than 5 script spends whose committed script calls a function defined by the witness')
    return msgs
