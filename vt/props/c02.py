"""C02 - signature instructions verify exactly the flag-selected message."""
from __future__ import annotations
import hashlib
from .. import env, hyp, optable as O, ed25519_ref as E
from hypothesis import strategies as st
from nacl.signing import SigningKey

F = env.F
C = O.CODES
ID = 'C02'
LEVEL = 'exploration'
RULE = ('complete 256 x 256 flag x allowed-flags matrix for CHECK_SIG and CHECK_SIG_VERIFY (honest signature and a '
        'signature over another flag\'s message per cell) on an 8-field layout with absent fields; all 256 presence '
        'subsets x flags {0, 1<<k, ff} for GET_MESSAGE / SIGN / CHECK_SIG; Hypothesis cases over seeds, presence subsets, '
        'field contents (0-64 bytes), flag / allowed pairs, the six instructions, malformed key / signature lengths and '
        'single-bit corruptions of key / signature / covered field / excluded field / flag byte. Oracle: reference '
        'message builder + pure-Python RFC 8032 (sign is deterministic, so SIGN is compared byte for byte). '
        'non-trivial = a present field is excluded by the flag, or the flag is not permitted, or a corruption / '
        'malformed operand is applied; distinct by (subset, flag, allowed, op, corruption kind and position).'
        ' Cases draw decoy cache entries that are not sigfield1-8 (sigfield9, sigfield10, sigfield0, Sigfield1, bytes-keyed sigfield1, ...): never part of a message.')
ASSUMPTIONS = ['vt/ed25519_ref.py (RFC 8032) is the verification oracle for the sampled part; the complete matrix uses '
               'libsodium-made signatures whose validity is established by construction and spot-checked by the reference',
               'after a key / signature bit flip only "not true" is required (invalid encodings may be rejected either way)',
               'the selected message fits the item-size limit of the run: the message is a stack item (GET_MESSAGE), and C07 requires an '
               'execution error for anything that would exceed a limit, so a longer message is an error for sign and check alike']


def msg_of(fields, flag):
    out = b''
    for i in range(1, 9):
        k = 'sigfield%d' % i
        if k in fields and not (flag >> (i - 1)) & 1:
            out += fields[k]
    return out


def push(v):
    if len(v) == 1:
        return bytes([C['OP_PUSH0']]) + v
    if len(v) < 256:
        return bytes([C['OP_PUSH1'], len(v)]) + v
    return bytes([C['OP_PUSH2']]) + len(v).to_bytes(2, 'big') + v


def reorder(fields, order):
    """The same entries inserted into the dict in another order (the statement says index order, not insertion order)."""
    keys = sorted(fields)
    if order == 'reversed':
        keys = keys[::-1]
    elif isinstance(order, int) and len(keys) > 1:
        import random
        keys = list(keys)
        random.Random(order).shuffle(keys)
    return {k: fields[k] for k in keys}


# cache entries that are NOT sigfield1 .. sigfield8 (the message is made of exactly those eight names): present in the cache
# of every run of a case that draws them, never part of a message
DECOYS = {'sigfield9': b'nine', 'sigfield10': b'ten', 'sigfield0': b'zero', 'sigfield': b'bare', 'sigfield01': b'padded',
          'Sigfield1': b'capital', 'sigfield1 ': b'space', b'sigfield1': [b'bytes key'], 'sigfield11': b'eleven', 'custom': b'c'}
_ACTIVE_DECOYS = {}


def run(code, fields):
    try:
        _, s, c = F.run_script(code, dict(fields, **{k: v for k, v in _ACTIVE_DECOYS.items() if isinstance(k, str)},
                                          ) | {k: v for k, v in _ACTIVE_DECOYS.items() if not isinstance(k, str)})
        return ('ok', s.list())
    except env.SEE as e:
        return ('see', str(e)[:40])
    except BaseException as e:  # noqa
        if isinstance(e, (KeyboardInterrupt, SystemExit)):
            raise
        return ('err', type(e).__name__)


def sodium_sign(seed, m):
    return SigningKey(seed).sign(m).signature


TRUE, FALSE = ('ok', [b'\xff']), ('ok', [b'\x00'])


def check_cell(seed, fields, flag, allowed, form65=True):
    """One matrix cell: CHECK_SIG and CHECK_SIG_VERIFY, honest and wrong-message signature."""
    fails = []
    pk = bytes(SigningKey(seed).verify_key)
    honest = sodium_sign(seed, msg_of(fields, flag)) + (bytes([flag]) if (flag or form65) else b'')
    # a signature over the message of a neighbouring flag, carrying this flag byte
    other = None
    for i in range(1, 9):
        k = 'sigfield%d' % i
        if k in fields and fields[k]:
            other = sodium_sign(seed, msg_of(fields, flag ^ (1 << (i - 1)))) + bytes([flag])
            break
    permitted = (flag & ~allowed) & 0xff == 0
    for sig, valid, label in ((honest, True, 'honest'), (other, False, 'other-message')):
        if sig is None:
            continue
        got = run(push(sig) + push(pk) + bytes([C['OP_CHECK_SIG'], allowed]), fields)
        gotv = run(push(sig) + push(pk) + bytes([C['OP_CHECK_SIG_VERIFY'], allowed, C['OP_TRUE']]), fields)
        if not permitted:
            if got[0] != 'see':
                fails.append(('check/CHECK_SIG/disallowed-flag-not-an-error', 'flag %02x allowed %02x -> %r' % (flag, allowed, got)))
            if gotv[0] != 'see':
                fails.append(('check/CHECK_SIG_VERIFY/disallowed-flag-not-an-error', 'flag %02x allowed %02x -> %r' % (flag, allowed, gotv)))
        else:
            want = TRUE if valid else FALSE
            if got != want:
                fails.append(('check/CHECK_SIG/%s' % ('false-for-valid' if valid else 'true-for-invalid'),
                              '%s flag %02x allowed %02x -> %r' % (label, flag, allowed, got)))
            wantv = TRUE if valid else 'see'
            if (gotv != wantv) if valid else (gotv[0] != 'see'):
                fails.append(('check/CHECK_SIG_VERIFY/%s' % ('raises-for-valid' if valid else 'no-error-for-invalid'),
                              '%s flag %02x allowed %02x -> %r' % (label, flag, allowed, gotv)))
    return fails


def check_sign_msg(seed, fields, flag, use_ref=True):
    """GET_MESSAGE and SIGN exactness, sign-then-check."""
    fails = []
    m = msg_of(fields, flag)
    got = run(bytes([C['OP_GET_MESSAGE'], flag]), fields)
    if got != ('ok', [m]):
        fails.append(('msg/GET_MESSAGE-wrong-bytes', 'flag %02x -> %r expected %s' % (flag, got, m.hex())))
    ref = (E.sign(seed, m) if use_ref else sodium_sign(seed, m)) + (bytes([flag]) if flag else b'')
    got = run(push(seed) + bytes([C['OP_SIGN'], flag]), fields)
    if got != ('ok', [ref]):
        fails.append(('sign/SIGN-not-the-rfc8032-signature-of-the-selected-message', 'flag %02x -> %r' % (flag, str(got)[:120])))
    # sign-then-check for allowed = flag and ff
    pk = E.pub(seed) if use_ref else bytes(SigningKey(seed).verify_key)
    for allowed in (flag, 0xff):
        code = push(seed) + bytes([C['OP_SIGN'], flag]) + push(pk) + bytes([C['OP_CHECK_SIG'], allowed])
        got = run(code, fields)
        if got != TRUE:
            fails.append(('sign/sign-then-check-fails', 'flag %02x allowed %02x -> %r' % (flag, allowed, got)))
    return fails


def _flip(b, bit):
    x = bytearray(b)
    x[bit // 8] ^= 1 << (bit % 8)
    return bytes(x)


def check_general(case):
    """One Hypothesis case (see strategy)."""
    _ACTIVE_DECOYS.clear()
    names = list(DECOYS)
    _ACTIVE_DECOYS.update({names[i % len(names)]: DECOYS[names[i % len(names)]] for i in case.get('decoys', [])})
    try:
        return _check_general(case)
    finally:
        _ACTIVE_DECOYS.clear()


def _check_general(case):
    seed, fields, flag, allowed, op = case['seed'], case['fields'], case['flag'], case['allowed'], case['op']
    kind, pos = case.get('corrupt', ('none', 0))
    fails = []
    pk = E.pub(seed)
    m = msg_of(fields, flag)
    permitted = (flag & ~allowed) & 0xff == 0
    if op in ('GET_MESSAGE', 'SIGN'):
        return check_sign_msg(seed, fields, flag)
    if op == 'SIGN_STACK':
        mm = case.get('message', m)
        got = run(push(mm) + push(seed) + bytes([C['OP_SIGN_STACK']]), fields) if mm else None
        if mm and got != ('ok', [E.sign(seed, mm)]):
            fails.append(('sign/SIGN_STACK-not-the-rfc8032-signature', str(got)[:100]))
        bad = run(push(mm or b'x') + push(seed[:pos % 32]) + bytes([C['OP_SIGN_STACK']]), fields) if pos % 32 else None
        if bad is not None and bad[0] == 'ok':
            fails.append(('sign/SIGN_STACK-accepts-malformed-seed', 'len %d' % (pos % 32)))
        return fails
    sig64 = E.sign(seed, m)
    sig = sig64 + (bytes([flag]) if (flag or case.get('form65')) else b'')
    fields2 = dict(fields)
    key = pk
    expect = 'valid'
    if kind == 'key-bit':
        key = _flip(pk, pos % 256)
        expect = 'not-true'
    elif kind == 'sig-bit':
        sig = _flip(sig, pos % 512)
        expect = 'not-true'
    elif kind == 'covered-field':
        cov = [k for k in sorted(fields) if not (flag >> (int(k[-1]) - 1)) & 1 and fields[k]]
        if not cov:
            kind = 'none'
        else:
            k = cov[pos % len(cov)]
            fields2[k] = _flip(fields[k], pos % (8 * len(fields[k])))
            expect = 'not-true'
    elif kind == 'excluded-field':
        exc = [k for k in sorted(fields) if (flag >> (int(k[-1]) - 1)) & 1]
        absent = ['sigfield%d' % i for i in range(1, 9) if 'sigfield%d' % i not in fields and (flag >> (i - 1)) & 1]
        if exc:
            k = exc[pos % len(exc)]
            fields2[k] = fields[k] + b'\x01' if pos % 2 else b''
        elif absent:
            fields2[absent[pos % len(absent)]] = b'injected'
        else:
            kind = 'none'
    elif kind == 'flag-byte':
        nf = flag ^ (1 << (pos % 8))
        sig = sig64 + bytes([nf])
        # the message the checker builds changes iff that field is present and non-empty
        k = 'sigfield%d' % (pos % 8 + 1)
        changed = k in fields and len(fields[k]) > 0
        flag_eff = nf
        permitted = (flag_eff & ~allowed) & 0xff == 0
        expect = 'not-true' if changed else 'valid'
    elif kind == 'key-len':
        key = [b'', pk[:31], pk + b'\x00', pk[:1]][pos % 4]
        expect = 'error'
    elif kind == 'sig-len':
        sig = [b'x', sig64[:63], sig64 + b'\x00\x00', sig64 + bytes([flag, flag]), sig64[:32]][pos % 5]
        if len(sig) == 0:
            sig = b'x'
        expect = 'error'
    if op in ('CHECK_SIG', 'CHECK_SIG_VERIFY'):
        code = push(sig) + push(key) + bytes([C['OP_' + op], allowed]) + (bytes([C['OP_TRUE']]) if op.endswith('VERIFY') else b'')
        got = run(code, fields2)
        if expect == 'error':
            if got[0] == 'ok':
                fails.append(('check/%s/malformed-%s-not-an-error' % (op, kind), '%r' % (got,)))
        elif not permitted:
            if got[0] != 'see':
                fails.append(('check/%s/disallowed-flag-not-an-error' % op, 'flag %02x allowed %02x %s -> %r' % (flag, allowed, kind, got)))
        elif expect == 'valid':
            ok = E.verify(key, msg_of(fields2, sig[64] if len(sig) == 65 else 0), sig[:64])
            if not ok:
                raise AssertionError('harness: reference rejects an honest case')
            if got != TRUE:
                fails.append(('check/%s/%s' % (op, 'false-for-valid' if kind == 'none' else 'verdict-changed-by-' + kind),
                              'flag %02x allowed %02x -> %r' % (flag, allowed, got)))
        else:
            if got == TRUE:
                fails.append(('corrupt/%s/%s-accepted' % (op, kind), 'flag %02x pos %d' % (flag, pos)))
            elif op == 'CHECK_SIG_VERIFY' and got[0] == 'ok':
                fails.append(('check/CHECK_SIG_VERIFY/no-error-for-invalid', '%s -> %r' % (kind, got)))
    elif op == 'CHECK_SIG_STACK':
        mm = case.get('message', m) or b'm'
        s64 = E.sign(seed, mm)
        if kind == 'sig-bit':
            s64 = _flip(s64, pos % 512)
        if kind == 'sig-len':
            s64 = sig
        msgv = _flip(mm, pos % (8 * len(mm))) if kind == 'covered-field' else mm
        code = push(s64) + push(msgv) + push(key) + bytes([C['OP_CHECK_SIG_STACK']])
        got = run(code, fields2)
        if kind in ('key-len', 'sig-len'):
            if got[0] == 'ok':
                fails.append(('check/CHECK_SIG_STACK/malformed-%s-not-an-error' % kind, '%r' % (got,)))
        elif kind in ('none', 'excluded-field', 'flag-byte'):
            if got != TRUE:
                fails.append(('check/CHECK_SIG_STACK/false-for-valid', '%r' % (got,)))
        elif got == TRUE:
            fails.append(('corrupt/CHECK_SIG_STACK/%s-accepted' % kind, 'pos %d' % pos))
    return fails


def check_case(case):
    k = case['check']
    if k == 'cell':
        return check_cell(case['seed'], case['fields'], case['flag'] & 0xff, case['allowed'] & 0xff, case.get('form65', True))
    if k == 'signmsg':
        return check_sign_msg(case['seed'], case['fields'], case['flag'] & 0xff)
    if k == 'general':
        if len(case['seed']) != 32 or any(not k_.startswith('sigfield') or not isinstance(v, bytes) for k_, v in case['fields'].items()):
            raise ValueError('shape')
        return check_general(case)
    raise ValueError(k)


LAYOUT = {'sigfield%d' % i: bytes([i]) * i for i in (1, 2, 3, 5, 8)}     # 4, 6, 7 absent
SEED0 = bytes(range(32))


def task_matrix(ctx):
    n = 0
    for flag in range(ctx.shard, 256, ctx.nshards):
        for allowed in range(256):
            lay = LAYOUT if (flag + allowed) % 2 == 0 else reorder(LAYOUT, 'reversed')
            fails = check_cell(SEED0, lay, flag, allowed, True)
            nt = bool(flag)
            ctx.case(('cell', flag, allowed), nt)
            n += 1
            for s, d in fails:
                ctx.fail('cell', s, {'check': 'cell', 'seed': SEED0, 'fields': lay, 'flag': flag, 'allowed': allowed}, d)
        if flag in (5, 0x80):
            ctx.sample({'check': 'cell', 'flag': flag, 'allowed': 'all 256', 'fields_present': sorted(LAYOUT)})
    ctx.exhaustive['flag x allowed cells (CHECK_SIG + CHECK_SIG_VERIFY, honest + other-message signature)'] = n
    # 64-byte form for flag 0
    if ctx.shard == 0:
        for allowed in range(256):
            for s, d in check_cell(SEED0, LAYOUT, 0, allowed, False):
                ctx.fail('cell', s, {'check': 'cell', 'seed': SEED0, 'fields': LAYOUT, 'flag': 0, 'allowed': allowed, 'form65': False}, d)
            ctx.case(('cell64', allowed), True)


def task_subsets(ctx):
    """all 256 presence subsets x flags {0, 1<<k, ff}: message builder, signer, sign-then-check."""
    n = 0
    for subset in range(ctx.shard, 256, ctx.nshards):
        fields = {'sigfield%d' % (i + 1): hashlib.sha256(bytes([subset, i])).digest()[:(i * 5) % 17] for i in range(8)
                  if (subset >> i) & 1}
        for flag in [0, 0xff] + [1 << k for k in range(8)] + ([0x55, 0xaa] if ctx.thorough() else []):
            use_ref = (subset % 16 == ctx.shard % 16 and flag in (0, 1, 0x80)) or ctx.thorough()
            for order in ('ascending', 'reversed', subset * 31 + flag):
                f2 = reorder(fields, order)
                fails = check_sign_msg(SEED0, f2, flag, use_ref=use_ref and order == 'ascending')
                ctx.case(('signmsg', subset, flag, order), any((flag >> (int(k[-1]) - 1)) & 1 for k in fields))
                n += 1
                for s, d in fails:
                    ctx.fail('signmsg', s, {'check': 'signmsg', 'seed': SEED0, 'fields': f2, 'flag': flag}, d)
    ctx.exhaustive['presence subsets x flags (GET_MESSAGE, SIGN, sign-then-check)'] = n


@st.composite
def general(draw):
    seed = draw(st.one_of(st.just(SEED0), st.binary(min_size=32, max_size=32)))
    kind = draw(st.sampled_from(['sparse', 'full', 'gap', 'any']))
    subset = {'sparse': draw(st.sampled_from([0, 1, 2, 0x80, 0x81])), 'full': 0xff,
              'gap': 0xff ^ (1 << draw(st.integers(0, 7))), 'any': draw(st.integers(0, 255))}[kind]
    fields = {}
    for i in range(8):
        if (subset >> i) & 1:
            fields['sigfield%d' % (i + 1)] = draw(st.one_of(st.just(b''), st.binary(min_size=1, max_size=8),
                                                           st.binary(min_size=1, max_size=64)))
    flag = draw(st.one_of(st.sampled_from([0, 1, 0x80, 0xff, 0x0f]), st.integers(0, 255)))
    allowed = draw(st.one_of(st.just(flag), st.just(0xff), st.just(0), st.integers(0, 255),
                             st.just(flag ^ (1 << draw(st.integers(0, 7))))))
    op = draw(st.sampled_from(['CHECK_SIG', 'CHECK_SIG', 'CHECK_SIG_VERIFY', 'CHECK_SIG_STACK', 'SIGN', 'SIGN_STACK', 'GET_MESSAGE']))
    corrupt = draw(st.sampled_from(['none', 'none', 'key-bit', 'sig-bit', 'covered-field', 'excluded-field', 'flag-byte',
                                    'key-len', 'sig-len']))
    fields = reorder(fields, draw(st.one_of(st.just('ascending'), st.just('reversed'), st.integers(0, 1000))))
    c = {'check': 'general', 'seed': seed, 'fields': fields, 'flag': flag, 'allowed': allowed, 'op': op,
         'corrupt': (corrupt, draw(st.integers(0, 4095))), 'form65': draw(st.booleans()),
         'decoys': draw(st.one_of(st.just([]), st.lists(st.integers(0, len(DECOYS) - 1), min_size=1, max_size=3, unique=True)))}
    if op in ('SIGN_STACK', 'CHECK_SIG_STACK') and draw(st.booleans()):
        c['message'] = draw(st.binary(min_size=1, max_size=200))
    return c


def task_general(ctx):
    def one(c):
        fails = check_general(c)
        if c.get('decoys'):
            ctx.count('cache holds entries that are not sigfield1-8 (sigfield9, sigfield0, Sigfield1, ...)')
        flag, fields = c['flag'], c['fields']
        nt = (any((flag >> (int(k[-1]) - 1)) & 1 for k in fields) or (flag & ~c['allowed']) & 0xff != 0 or
              c['corrupt'][0] != 'none')
        ctx.case((sorted(fields), flag, c['allowed'], c['op'], c['corrupt']), nt)
        ctx.count('op:' + c['op'])
        ctx.count('corrupt:' + c['corrupt'][0])
        for s, d in fails:
            ctx.fail('general', s, c, d)
        if nt:
            ctx.sample({k: v for k, v in c.items() if k != 'check'})
    hyp.drive(general(), one, ctx.n(12000, 300000), ctx.seed)


TASKS = {
    'matrix': (task_matrix, 16, 16),
    'subsets': (task_subsets, 8, 16),
    'general': (task_general, 16, 16),
}
