"""C11 - the compiler emits exactly the instructions written."""
from __future__ import annotations
import itertools
from .. import env, hyp, gen, refasm as R, render, optable as O
from hypothesis import strategies as st

P, T = env.P, env.T
ID = 'C11'
LEVEL = 'exploration'
RULE = ('Hypothesis-generated source trees over the whole instruction set (all 92 ops + NOP codes, nesting <= 4, '
        'boundary operands, variables, macros, both comptime forms, hoisted IF conditions) rendered to text under a '
        'drawn spelling vector (OP_ name / bare / every documented alias, letter case, brace vs END_ terminators, '
        'd/x/s/f value prefixes in either case, explicit vs omitted push sizes, comments with arbitrary words '
        'incl. braces/keywords/~). Oracle: bytes returned by compile_script must equal the reference assembler\'s '
        'encoding of the lowered tree; unencodable trees must be rejected; Script.from_src must agree. '
        'non-trivial = (>= 3 instructions or >= 1 block) and >= 1 non-canonical spelling choice; '
        'distinct = digest of (tree, spelling vector).'
        ' Task nesting: all 11 040 two-level nestings of IF / IF_ELSE / TRY / LOOP / DEF x both terminator styles x 5 comment positions x 24 comment bodies; task optimised: every one-byte-operand instruction x 11 decimal values and 300 programs compiled in-process and by a python -O worker (same bytes or both rejected); decimal values on both sides of every byte-length boundary to 17 bytes and around 255 / 256 bytes; the empty string as an s value; task decimals: PUSH / READ_CACHE / READ_CACHE_SIZE / WRITE_CACHE / DIV_INT / MOD_INT / SET_FLAG / UNSET_FLAG x decimal operands on both sides of every length boundary: the operand bytes are the minimal two\'s-complement encoding in every instruction (or the source is rejected).')
ASSUMPTIONS = ['reference assembler vt/refasm.py + lowering rules vt/render.py written from language_spec.md / docs.md',
               'compiler rejections of encodable programs are not violations (property constrains accepted sources); '
               'they are counted per class and bounded by vacuity guards']


def _compile(src):
    try:
        return 'ok', P.compile_script(src)
    except BaseException as e:  # noqa
        if isinstance(e, (KeyboardInterrupt, SystemExit, MemoryError)):
            raise
        return 'raised', e


def _kind(n):
    if n is None:
        return 'start'
    if n[0] == 'i':
        return O.name_of(n[1]) if n[1] < O.N_OPS else 'NOP'
    return n[0]


def _first_diff(exp, got, prev='start'):
    """-> (kind, context) describing the first structural difference."""
    for i in range(max(len(exp), len(got))):
        if i >= len(got):
            return 'dropped:%s' % _kind(exp[i]), 'after:' + prev
        if i >= len(exp):
            return 'extra:%s' % _kind(got[i]), 'after:' + prev
        a, b = exp[i], got[i]
        if a != b:
            if a[0] == b[0] and a[0] != 'i':
                # same block kind: descend
                for j in range(1, len(a)):
                    if isinstance(a[j], list) and j < len(b) and isinstance(b[j], list) and a[j] != b[j]:
                        k, c = _first_diff(a[j], b[j], 'start')
                        return k, 'in:%s/%s' % (a[0], c)
                return 'differs:%s' % a[0], 'after:' + prev
            if a[0] == 'i' and b[0] == 'i' and a[1] == b[1]:
                return 'operand:%s' % _kind(a), 'after:' + prev
            # is exp[i] present later in got (extra) or got[i] later in exp (dropped)?
            if i + 1 < len(exp) and exp[i + 1] == b:
                return 'dropped:%s' % _kind(a), 'after:' + prev
            return 'replaced:%s->%s' % (_kind(a), _kind(b)), 'after:' + prev
        prev = _kind(a)
    return 'same', ''


def _miscompiles(tree, sp, off, expected, cr=7):
    ch = render.Chooser(sp, off, cr)
    try:
        src = render.render(tree, ch)
    except Exception:
        return False
    k, out = _compile(src)
    return k == 'ok' and out != expected


def attribute(tree, sp, expected, cr=7):
    """Name the spelling feature(s) whose removal makes the mis-assembly go
    away (ablation): the signature of a root cause, independent of the input."""
    feats = list(render.FEATURES)
    for f in feats:
        if not _miscompiles(tree, sp, {f}, expected, cr):
            if f == 'comments':
                for sub in render.COMMENT_SUBFEATURES:
                    if not _miscompiles(tree, sp, {sub}, expected, cr):
                        return sub
            return f
    if _miscompiles(tree, sp, set(feats), expected, cr):
        return 'canonical'
    off = set(feats)
    for f in feats:
        if not _miscompiles(tree, sp, off - {f}, expected, cr):
            off.discard(f)
    return '+'.join(sorted(off))


def evaluate(tree, sp, cr=7):
    """-> (fails, info)"""
    info = {}
    try:
        low = render.lower(tree)
        expected = R.encode(low)
        encodable = True
    except R.NotEncodable:
        low, expected, encodable = None, None, False
    ch = render.Chooser(sp, (), cr)
    try:
        src = render.render(tree, ch)
    except (R.NotEncodable, TypeError, ValueError, IndexError, KeyError) as e:
        raise InvalidCase(repr(e))
    info['src'] = src
    info['noncanon'] = ch.noncanon
    info['encodable'] = encodable
    k, out = _compile(src)
    info['accepted'] = k == 'ok'
    fails = []
    if k == 'ok':
        if not isinstance(out, bytes):
            fails.append(('c11/non-bytes-result', repr(type(out))))
        elif not encodable:
            fails.append(('c11/unencodable-accepted', 'src %r -> %s' % (src[:200], out[:32].hex())))
        elif out != expected:
            try:
                got = R.decode(out)
                kind, where = _first_diff(low, got)
            except R.DecodeError:
                kind, where = 'undecodable-output', ''
            fails.append(('c11/mis-assembled/feature:%s' % attribute(tree, sp, expected, cr),
                          '%s %s | src %r -> %s expected %s' % (kind, where, src[:300], out[:40].hex(), expected[:40].hex())))
        else:
            try:
                sb = bytes(T.Script.from_src(src))
                if sb != out:
                    fails.append(('c11/Script.from_src-differs', src[:200]))
            except BaseException as e:  # noqa
                fails.append(('c11/Script.from_src-raises', repr(e)[:200]))
    else:
        import re as _re
        msg = _re.sub(r'[0-9]+', 'N', str(out))
        msg = _re.sub(r'\b[xXdDsSfF][0-9A-Fa-fN"\'-][^ ]*', 'VAL', msg)
        info['reject'] = type(out).__name__ + ':' + ' '.join(msg.split()[:4])[:40]
    return fails, info


class InvalidCase(Exception):
    pass


# ---- hostile comments at every position of every two-level nesting of constructs, in every mix of terminator styles
C = gen.C
NEST_KINDS = ['if', 'ife', 'try', 'loop', 'def']
NEST_BODIES = ['hello'] + render.HOSTILE + ['END_DEF', '} ELSE', 'END_IF END_IF', '} EXCEPT {', 'end_try']


def _nest_text(kind, brace, first, second, handle):
    kw = {'if': 'IF', 'ife': 'IF', 'try': 'TRY', 'loop': 'LOOP', 'def': 'DEF %d' % handle}[kind]
    mid = {'ife': 'ELSE', 'try': 'EXCEPT'}.get(kind)
    end = {'if': 'END_IF', 'ife': 'END_IF', 'try': 'END_EXCEPT', 'loop': 'END_LOOP', 'def': 'END_DEF'}[kind]
    if brace:
        out = '%s { %s }' % (kw, first)
        if mid:
            out += ' %s { %s }' % (mid, second)
        return out
    out = '%s %s' % (kw, first)
    if mid:
        out += ' %s %s' % (mid, second)
    return out + ' ' + end


def _nest_tree(kind, first, second, handle):
    if kind in ('ife', 'try'):
        return [kind, first, second]
    if kind == 'def':
        return ['def', handle, first]
    return [kind, first]


def nest_case(case):
    """-> (source text, expected bytes) or raises InvalidCase for the shapes the mixed syntax leaves ambiguous"""
    outer, ob, inner, ib, pos, bi = case['outer'], case['obrace'], case['inner'], case['ibrace'], case['pos'], case['body']
    if outer not in NEST_KINDS or inner not in NEST_KINDS or (outer == 'def' and inner == 'def') or not 0 <= pos <= 4:
        raise InvalidCase('shape')
    if not ob and ib and inner in ('if', 'try') and outer in ('ife', 'try') and pos in (0, 1, 2, 3):
        raise InvalidCase('dangling ELSE / EXCEPT')      # the documented ambiguity (see render.py)
    if not ob and ib and inner in ('if', 'try') and outer in ('ife', 'try'):
        raise InvalidCase('dangling ELSE / EXCEPT')
    cm = '# %s #' % NEST_BODIES[bi % len(NEST_BODIES)]
    dup, nt = ['i', C['OP_DUP']], ['i', C['OP_NOT']]
    ifirst = ' '.join(x for x in [cm if pos == 1 else '', 'DUP', cm if pos == 2 else ''] if x)
    itext = _nest_text(inner, ib, ifirst, 'NOT', 1)
    itree = _nest_tree(inner, [dup], [nt], 1)
    ofirst = ' '.join(x for x in [cm if pos == 0 else '', itext, cm if pos == 3 else ''] if x)
    osecond = ' '.join(x for x in ['SWAP2', cm if pos == 4 else ''] if x)
    text = 'TRUE ' + _nest_text(outer, ob, ofirst, osecond, 0) + ' DEPTH'
    tree = [['i', C['OP_TRUE']], _nest_tree(outer, [itree], [['i', C['OP_SWAP2']]], 0), ['i', C['OP_DEPTH']]]
    return text, R.encode(tree)


def check_nest(case):
    text, expected = nest_case(case)
    k, out = _compile(text)
    if k == 'ok' and out != expected:
        body = NEST_BODIES[case['body'] % len(NEST_BODIES)]
        cls = 'closer' if any(w in body.lower() for w in ('}', 'end_', 'else', 'except')) else ('opener' if any(w in body for w in '{([') else 'other')
        return [('c11/mis-assembled/comment-with-%s-in-nested-constructs' % cls, 'src %r -> %s expected %s' % (text, out.hex(), expected.hex()))], k
    return [], k


def check_case(case):
    if case.get('check') == 'src':
        tree, sp = case['prog'], case.get('sp', [0])
        if not isinstance(tree, list) or not isinstance(sp, list):
            raise InvalidCase('shape')
        try:
            fails, info = evaluate(tree, sp, case.get('cr', 7))
        except (IndexError, KeyError, TypeError, ValueError, AttributeError) as e:
            raise InvalidCase(repr(e))
        return fails
    if case.get('check') == 'macro':
        return check_macro(case)[0]
    if case.get('check') == 'optsrc':
        return check_optsrc(case)
    if case.get('check') == 'nest':
        return check_nest(case)[0]
    if case.get('check') == 'text':
        # raw source text with its expected bytes (hand-written regression vectors)
        k, out = _compile(case['src'])
        if k == 'ok' and out != case['expected']:
            return [(case.get('signature', 'c11/mis-assembled/text'), '%s -> %s' % (case['src'], out.hex()))]
        return []
    raise ValueError('unknown check')


def _size(tree):
    n = b = 0
    for x in tree:
        n += 1
        if x[0] in ('def', 'if', 'ife', 'try', 'loop', 'comptime'):
            b += 1
            for y in x[1:]:
                if isinstance(y, list) and (not y or isinstance(y[0], list)):
                    nn, bb = _size(y)
                    n += nn
                    b += bb
    return n, b


def _one(ctx, tree, sp, label, cr=7):
    try:
        fails, info = evaluate(tree, sp, cr)
    except InvalidCase:
        ctx.count('invalid-case')
        return
    n, b = _size(tree)
    nt = (n >= 3 or b >= 1) and info['noncanon'] >= 1
    ctx.case({'p': tree, 's': sp, 'c': cr}, nt)
    if cr != 7:
        ctx.count('comment-heavy')
    canon = info['noncanon'] == 0
    ctx.count(('canon:' if canon else 'spelled:') + ('accepted' if info['accepted'] else 'rejected'))
    if not info['encodable']:
        ctx.count('unencodable:' + ('accepted' if info['accepted'] else 'rejected'))
    if not info['accepted']:
        ctx.count('reject:' + info['reject'])
    for sig, det in fails:
        ctx.fail('src', sig, {'check': 'src', 'prog': tree, 'sp': sp, 'cr': cr}, det)
    if nt and info['accepted'] and len(info['src']) < 300:
        ctx.sample({'source': info['src'], 'spelling_choices_noncanonical': info['noncanon']})


@st.composite
def unencodable(draw):
    k = draw(st.sampled_from(['u8', 'swap', 'key', 'push', 'def', 'lv1']))
    if k == 'u8':
        return [['i', draw(st.sampled_from(gen.U8_OPS)), draw(st.sampled_from([256, 257, 1000]))]]
    if k == 'swap':
        return [['i', gen.C['OP_SWAP'], draw(st.sampled_from([256, 300])), 1]]
    if k == 'key':
        return [['i', gen.C['OP_WRITE_CACHE'], b'k' * draw(st.sampled_from([256, 300])), 1]]
    if k == 'push':
        return [['push', b'p' * draw(st.sampled_from([65536, 65537, 70000]))]]
    if k == 'lv1':
        return [['i', gen.C['OP_READ_CACHE'], b'k' * 256]]
    big = [['push', b'q' * 40000], ['push', b'r' * 30000]]
    return [[draw(st.sampled_from(['if', 'loop'])), big]] if draw(st.booleans()) else [['def', 3, big]]


def task_canon(ctx):
    hyp.drive(gen.source_tree(max_depth=4, sugar=True, big=False),
              lambda t: _one(ctx, t, [0], 'canon'), ctx.n(3000, 120000), ctx.seed)
    hyp.drive(unencodable(), lambda t: _one(ctx, t, [0], 'unenc'), ctx.n(64, 640), ctx.seed + 5)


def task_spelled(ctx):
    strat = st.tuples(gen.source_tree(max_depth=4, sugar=True, big=False),
                      st.lists(st.integers(0, 2 ** 16), min_size=1, max_size=24))
    hyp.drive(strat, lambda ts: _one(ctx, ts[0], ts[1], 'spelled'), ctx.n(9000, 500000), ctx.seed + 1)
    # comment-heavy spelling
    hyp.drive(strat, lambda ts: _one(ctx, ts[0], ts[1], 'spelled', 2), ctx.n(5000, 300000), ctx.seed + 3)
    # no sugar, denser control flow
    strat2 = st.tuples(gen.source_tree(max_depth=4, sugar=False, big=False, max_len=4),
                       st.lists(st.integers(0, 2 ** 16), min_size=4, max_size=16))
    hyp.drive(strat2, lambda ts: _one(ctx, ts[0], ts[1], 'spelled'), ctx.n(5000, 300000), ctx.seed + 2)


def compile_optimised(sources):
    """compile results (hex or 'raised') in a fresh interpreter started with -O (assert statements stripped)"""
    import json, os, subprocess, sys, tempfile
    fd, path = tempfile.mkstemp(prefix='vt-c11-opt-', suffix='.json')
    try:
        with os.fdopen(fd, 'w') as f:
            json.dump({'__d': {'s:mode': 'compile', 's:sources': list(sources)}, '__o': ['s:mode', 's:sources']}, f)
        root = os.path.dirname(os.path.dirname(os.path.dirname(os.path.abspath(__file__))))
        r = subprocess.run([sys.executable, '-O', '-m', 'vt.optworker', path], cwd=root, capture_output=True, text=True, timeout=1200,
                           env=dict(os.environ, PYTHONDONTWRITEBYTECODE='1', PYTHONHASHSEED='0'))
        if r.returncode != 0:
            raise RuntimeError('optimised worker failed: ' + r.stderr[-400:])
        d = json.loads(r.stdout.strip().splitlines()[-1])
        if not d['optimised']:
            raise RuntimeError('worker did not run with -O')
        return d['verdicts']
    finally:
        os.unlink(path)


def _compile_label(src):
    k, out = _compile(src)
    return out.hex() if k == 'ok' and isinstance(out, bytes) else 'raised'


def check_optsrc(case):
    src = case['src']
    a = _compile_label(src)
    (b,) = compile_optimised([src])
    if a != b:
        return [('c11/compile-result-depends-on-the-interpreter-optimisation-flag', 'src %r: normal %s, python -O %s' % (src[:120], a[:60], b[:60]))]
    return []


def task_optimised(ctx):
    """what the compiler returns or rejects does not depend on whether the interpreter strips assert statements (python -O)"""
    sources = []
    # one-byte operands on both sides of the signed and the unsigned range, for every instruction with such an operand
    for code in gen.U8_OPS + [92, 200, 255]:
        nm = O.name_of(code) if code < O.N_OPS else 'NOP%d' % code
        for v in (0, 1, 127, 128, 129, 200, 255, 256, -1, -128, -129):
            sources.append('%s d%d OP_TRUE' % (nm, v))
    def collect(tree):
        try:
            sources.append(render.render(tree, render.Chooser([0])))
        except Exception:
            pass
    hyp.drive(gen.source_tree(max_depth=3, sugar=True, big=False), collect, ctx.n(300, 20000), ctx.seed + 9)
    normal = [_compile_label(s) for s in sources]
    opt = compile_optimised(sources)
    for s_, a, b in zip(sources, normal, opt):
        ctx.case(('optsrc', s_), a == 'raised')
        ctx.count('optimised:%s' % ('same' if a == b else 'DIFFERENT'))
        ctx.count('optimised-normal:%s' % ('rejected' if a == 'raised' else 'compiled'))
        if a != b:
            ctx.fail('optsrc', 'c11/compile-result-depends-on-the-interpreter-optimisation-flag', {'check': 'optsrc', 'src': s_},
                     'src %r: normal %s, python -O %s' % (s_[:120], a[:60], b[:60]))


# ---- macros: redefinition, hostile comments in the body; instructions whose operands are missing
MACRO_BODIES = [('true', b'\x01'), ('false', b'\x00'), ('push a', None)]


def macro_cases():
    """-> list of (kind, source, expected bytes or None = must be rejected, or 'any' = only well-formedness)"""
    out = []
    T_, F_ = bytes([C['OP_TRUE']]), bytes([C['OP_FALSE']])
    d0, d1 = '!= m [ ] { true }', '!= m [ ] { false }'
    inv = '!m [ ]'
    # sequential meaning: an invocation expands the latest definition that precedes it
    for seq in itertools.product('01i', repeat=4):
        cur, exp, ok = None, b'', True
        for ch in seq:
            if ch == 'i':
                if cur is None:
                    ok = False          # use before any definition: hoisting or rejection - not constrained
                    break
                exp += cur
            else:
                cur = T_ if ch == '0' else F_
        if ok and 'i' in seq and ('0' in seq and '1' in seq):
            out.append(('redefinition', ' '.join({'0': d0, '1': d1, 'i': inv}[ch] for ch in seq) + ' not', exp + bytes([C['OP_NOT']])))
    out.append(('redefinition', '!= m [ a ] { push a } !m [ d1 ] != m [ a ] { push a dup } !m [ d2 ]', bytes([2, 1, 2, 2, C['OP_DUP']])))
    out.append(('redefinition', 'try { != q [ ] { true } !q [ ] } except { != q [ ] { false } !q [ ] }',
                bytes([C['OP_TRY_EXCEPT'], 0, 1, C['OP_TRUE'], 0, 1, C['OP_FALSE']])))
    # a comment inside the body of a macro definition is disregarded
    for body in NEST_BODIES:
        for pos in range(3):
            parts = ['true', 'dup']
            parts.insert(pos, '# %s #' % body)
            for wrap, pre, post in (('%s', b'', b''), ('if { %s } loop { not }', bytes([C['OP_IF'], 0, 2]), bytes([C['OP_LOOP'], 0, 1, C['OP_NOT']])),
                                    ('def 3 { %s } not', bytes([C['OP_DEF'], 3, 0, 2]), bytes([C['OP_NOT']]))):
                src = wrap % ('!= m [ ] { %s } !m [ ]' % ' '.join(parts))
                out.append(('comment-in-macro-body', src, pre + bytes([C['OP_TRUE'], C['OP_DUP']]) + post))
    # instructions written without (all of) their operands cannot be encoded
    for frag in ('swap', 'swap d1', 'check_multisig', 'cms x00', 'cms x00 d1', 'cmsv x00 d1', 'copy', 'call', 'push',
                 'write_cache', 'write_cache s"k"', 'merkleval', 'shake256', 'get_value', 'div_int', 'div_float', 'nop200'):
        for wrap in ('%s', 'true %s', '!= m [ ] { %s } !m [ ]', '!= m [ ] { %s } def 0 { !m [ ] } true', 'if { %s }', 'true if ( %s ) { true }',
                     'push ~ { %s }', 'def 0 { %s }', 'try { %s } except { }'):
            out.append(('missing-operands', wrap % frag, None))
    return out


def check_macro(case):
    kind, src, exp = case['kind'], case['src'], case['expected']
    k, out = _compile(src)
    if k != 'ok':
        return [], k
    if exp is None:
        return [('c11/source-with-missing-operands-accepted' if kind == 'missing-operands' else 'c11/unencodable-accepted',
                 'src %r -> %s' % (src, out.hex()))], k
    if out != exp:
        sig = {'redefinition': 'c11/mis-assembled/macro-redefinition', 'comment-in-macro-body': 'c11/mis-assembled/comment-in-macro-body'}[kind]
        return [(sig, 'src %r -> %s expected %s' % (src, out.hex(), exp.hex()))], k
    return [], k


def task_macros(ctx):
    n = 0
    for i, (kind, src, exp) in enumerate(macro_cases()):
        if i % ctx.nshards != ctx.shard:
            continue
        case = {'check': 'macro', 'kind': kind, 'src': src, 'expected': exp}
        fails, k = check_macro(case)
        n += 1
        ctx.case(('macro', src), True)
        ctx.count('macro:%s:%s' % (kind, 'accepted' if k == 'ok' else 'rejected'))
        for sig, det in fails:
            ctx.fail('macro', sig, case, det)
        if kind == 'redefinition' and i % 7 == 0:
            ctx.sample({'source': src})
    ctx.exhaustive['macro redefinition orders / comments in macro bodies / instructions without operands in every wrapper'] = n


DEC_OPS = ['OP_PUSH', 'OP_READ_CACHE', 'OP_READ_CACHE_SIZE', 'OP_DIV_INT', 'OP_MOD_INT', 'OP_SET_FLAG', 'OP_UNSET_FLAG', 'OP_WRITE_CACHE']
DEC_VALS = sorted(set([0, 1, -1, 2, 100, 127, 128, 129, 200, 255, 256, 257, 32767, 32768, 65535, 65536, 2 ** 31 - 1, 2 ** 31, 2 ** 32 - 1,
                       2 ** 32, 2 ** 63 - 1, 2 ** 63, 2 ** 64 - 1, 2 ** 64, -128, -129, -32768, -32769] + [v for v in gen._INT_EDGES if abs(v) < 2 ** 140]))


def dec_case(name, n):
    """A decimal value operand is the VM encoding of the integer (minimal two's complement) wherever a value can be
    written: the same spelling names the same bytes in PUSH, READ_CACHE, WRITE_CACHE, ..."""
    enc = R._min_signed(n)
    if name == 'OP_PUSH':
        prog = [R.push(enc)]
    elif name == 'OP_WRITE_CACHE':
        prog = [['i', C[name], enc, 1]]
    else:
        prog = [['i', C[name], enc]]
    src = '%s d%d%s OP_TRUE' % (name, n, ' d1' if name == 'OP_WRITE_CACHE' else '')
    return {'check': 'text', 'src': src, 'expected': R.encode(prog + [['i', C['OP_TRUE']]]), 'signature': 'c11/mis-assembled/decimal-value-operand'}


def task_decimals(ctx):
    n = 0
    for name in DEC_OPS:
        for v in DEC_VALS:
            case = dec_case(name, v)
            k, out = _compile(case['src'])
            ctx.case(('dec', name, v), abs(v) >= 128)
            ctx.count('decimal-operand:' + ('accepted' if k == 'ok' else 'rejected'))
            for sig, det in check_case(case):
                ctx.fail('text', sig, case, det)
            n += 1
    ctx.exhaustive['value-operand instructions x decimal values on both sides of every encoding-length boundary up to 17 bytes'] = n


def task_nesting(ctx):
    import itertools
    n = 0
    for i, (outer, ob, inner, ib, pos, bi) in enumerate(itertools.product(NEST_KINDS, (True, False), NEST_KINDS, (True, False), range(5),
                                                                           range(len(NEST_BODIES)))):
        if i % ctx.nshards != ctx.shard:
            continue
        case = {'check': 'nest', 'outer': outer, 'obrace': ob, 'inner': inner, 'ibrace': ib, 'pos': pos, 'body': bi}
        try:
            fails, k = check_nest(case)
        except InvalidCase:
            ctx.count('nest:ambiguous-shape-skipped')
            continue
        n += 1
        ctx.case(('nest', outer, ob, inner, ib, pos, bi), bi > 0)
        ctx.count('nest:' + ('accepted' if k == 'ok' else 'rejected'))
        for sig, det in fails:
            ctx.fail('nest', sig, case, det)
        if bi == 3 and pos == 1 and outer == 'ife' and inner == 'def':
            ctx.sample({'source': nest_case(case)[0]})
    ctx.exhaustive['two-level nestings x terminator styles x comment position x comment body'] = n


TASKS = {
    'decimals': (task_decimals, 1, 1),
    'macros': (task_macros, 2, 2),
    'optimised': (task_optimised, 1, 2),
    'nesting': (task_nesting, 2, 4),
    'canon': (task_canon, 6, 16),
    'spelled': (task_spelled, 16, 16),
}


def guards(tier, c, evaluations, nnt):
    msgs = []
    ca, cr = c.get('canon:accepted', 0), c.get('canon:rejected', 0)
    un = c.get('unencodable:accepted', 0) + c.get('unencodable:rejected', 0)
    if ca + cr and ca < 0.95 * (ca + cr - c.get('unencodable:rejected', 0)):
        msgs.append('canonical spelling accepted in only %d of %d cases' % (ca, ca + cr))
    sa, sr = c.get('spelled:accepted', 0), c.get('spelled:rejected', 0)
    if sa + sr and sa < 0.5 * (sa + sr):
        msgs.append('spelled programs accepted in only %d of %d cases' % (sa, sa + sr))
    if un == 0:
        msgs.append('no unencodable programs generated')
    return msgs
