"""C14 - delegation locks honour the certificate key, time window and delegability."""
from __future__ import annotations
import hashlib
from .. import env, hyp, optable as O, ed25519_ref as E
from ..recorder import push
from .c02 import msg_of
from hypothesis import strategies as st
from ..gen import dict_order as gen_dict_order
from nacl.signing import SigningKey

F, T = env.F, env.T
C = O.CODES
ID = 'C14'
LEVEL = 'exploration'
RULE = ('Hypothesis cases: root seed, chain of 1-6 delegate seeds, per-certificate begin / end placed relative to the '
        'execution timestamp t (t-2..t+2, far values, 0, 2^31-1), may-delegate bits, verifier clock around the slack '
        '(t-now in threshold-2..threshold+1; thresholds 0, 1, 60, 120), sigfields and flags; a valid chain is drawn first '
        'and at most one defect applied: boundary window, non-delegable inner certificate, slack, bit flip in any of the '
        'five certificate fields, certificate re-signed by a wrong key, two certificates swapped, a link dropped, a '
        'certificate spliced from an independent chain, final signature by a non-final delegate / over other sigfields / '
        'with a non-permitted flag. Both the single-certificate lock and the chain lock. Oracle: the acceptance condition '
        'of the statement evaluated by a reference over the resulting certificate DATA (RFC 8032 reference for every '
        'link), with the clock pinned; Certificate pack/unpack round trips for boundary field values. non-trivial = '
        'chain length >= 2, or a boundary timestamp, or a corruption; distinct by case parameters.'
        ' Accepted chains are replayed over other sigfield contents and at another time (the reference decides); certificates are edited after signing and packing, then packed again.')
ASSUMPTIONS = ['clock pinned through functions.time; thresholds set through functions.flags["ts_threshold"] (restored)',
               'vt/ed25519_ref.py decides every link and the final signature',
               'may-delegate is the one-byte boolean the certificate builder writes (00 / ff); other byte values can only be hand-built and '
               'are read differently by the chain lock (non-zero = may delegate) and Certificate.unpack (ff only)']

sha = lambda b: hashlib.sha256(b).digest()  # noqa: E731


def seed_of(tag, i):
    return sha(b'c14' + tag + bytes([i]))


def cert_bytes(signer_seed, pk, begin, end, can):
    pre = pk + begin.to_bytes(4, 'big') + end.to_bytes(4, 'big') + (b'\xff' if can else b'\x00')
    return pre + SigningKey(signer_seed).sign(pre).signature


def ref_accept(root_pk, certs, final_sig, fields, allowed, t, now, thr, chain_lock):
    """Acceptance condition of the statement over the data (certs in chain order: first signed by the root)."""
    if not certs:
        return False
    if any(len(c) != 105 for c in certs):
        return False
    if not chain_lock and len(certs) != 1:
        return False
    key = root_pk
    for i, c in enumerate(certs):
        pk, begin, end, can, sig = c[:32], int.from_bytes(c[32:36], 'big'), int.from_bytes(c[36:40], 'big'), c[40], c[41:]
        if not (begin <= t and (thr <= 0 or t - now < thr)):
            return False
        if not t < end:
            return False
        if not E.verify(key, c[:41], sig):
            return False
        last = i == len(certs) - 1
        if chain_lock and not last and not can:
            return False
        key = pk
    if len(final_sig) not in (64, 65):
        return False
    flag = final_sig[64] if len(final_sig) == 65 else 0
    if flag & ~allowed & 0xff:
        return False
    return E.verify(key, msg_of(fields, flag), final_sig[:64])


def run_lock(root_pk, certs, final_sig, fields, allowed, t, now, thr, chain_lock):
    fl = '%02x' % allowed
    if chain_lock:
        lock = T.make_delegate_key_chain_lock(root_pk, fl).bytes
        w = push(final_sig) + bytes([C['OP_FALSE']])
        rev = list(reversed(certs))
        for i, c in enumerate(rev):
            w += push(c) + (bytes([C['OP_TRUE']]) if i < len(rev) - 1 else b'')
    else:
        lock = T.make_delegate_key_lock(root_pk, fl).bytes
        w = push(final_sig) + b''.join(push(c) for c in certs)
    env.pin_clock(now)
    old = F.flags['ts_threshold']
    F.flags['ts_threshold'] = thr
    try:
        return F.run_auth_scripts([w, lock], dict(fields, timestamp=t))
    finally:
        F.flags['ts_threshold'] = old
        env.unpin_clock()


def materialise(case):
    """-> root_pk, certs (chain order), final_sig"""
    tag = case['tag']
    n = len(case['links'])
    root_seed = seed_of(tag, 0)
    seeds = [seed_of(tag, i + 1) for i in range(n)]
    t = case['t']
    certs = []
    signer = root_seed
    for i, ln in enumerate(case['links']):
        begin = max(0, min(2 ** 31 - 1, ln['begin']))
        end = max(0, min(2 ** 31 - 1, ln['end']))
        certs.append(cert_bytes(signer, E.pub(seeds[i]), begin, end, ln['can']))
        signer = seeds[i]
    flag = case['flag'] & case['allowed']
    final_signer = seeds[-1]
    fields = case['fields']
    sfields = fields
    d = case.get('defect')
    if d:
        kind = d[0]
        if kind == 'flip':
            i, bit = d[1] % n, d[2] % (105 * 8)
            b = bytearray(certs[i])
            b[bit // 8] ^= 1 << (bit % 8)
            certs[i] = bytes(b)
        elif kind == 'wrong-signer':
            i = d[1] % n
            c = certs[i]
            certs[i] = c[:41] + SigningKey(seed_of(tag, 99)).sign(c[:41]).signature
        elif kind == 'swap' and n >= 2:
            i = d[1] % (n - 1)
            certs[i], certs[i + 1] = certs[i + 1], certs[i]
        elif kind == 'drop' and n >= 2:
            del certs[d[1] % n]
        elif kind == 'splice':
            i = d[1] % n
            other_root = seed_of(tag + b'o', 0)
            certs[i] = cert_bytes(other_root, certs[i][:32], int.from_bytes(certs[i][32:36], 'big'),
                                  int.from_bytes(certs[i][36:40], 'big'), certs[i][40] == 255)
        elif kind == 'final-by-nonfinal' and n >= 2:
            final_signer = seeds[d[1] % (n - 1)]
        elif kind == 'final-by-root':
            final_signer = root_seed
        elif kind == 'final-other-fields':
            sfields = dict(fields)
            cov = [k for k in sorted(fields) if not (flag >> (int(k[-1]) - 1)) & 1]
            if cov:
                sfields[cov[0]] = fields[cov[0]] + b'!'
        elif kind == 'nonpermitted-flag':
            bad = [b for b in range(8) if not (case['allowed'] >> b) & 1]
            if bad:
                flag |= 1 << bad[0]
    final_sig = SigningKey(final_signer).sign(msg_of(sfields, flag)).signature + (bytes([flag]) if flag else b'')
    return E.pub(root_seed), certs, final_sig


def evaluate(case):
    root_pk, certs, final_sig = materialise(case)
    chain_lock = case['chain_lock']
    if not chain_lock:
        certs = certs[:1] if not case.get('defect') or case['defect'][0] not in ('drop',) else certs[:1]
        # the single lock takes one certificate: the final signature must then be by the first delegate
        if len(case['links']) > 1 and not case.get('defect'):
            tag = case['tag']
            flag = case['flag'] & case['allowed']
            final_sig = SigningKey(seed_of(tag, 1)).sign(msg_of(case['fields'], flag)).signature + (bytes([flag]) if flag else b'')
    exp = ref_accept(root_pk, certs, final_sig, case['fields'], case['allowed'], case['t'], case['now'], case['thr'], chain_lock)
    got = run_lock(root_pk, certs, final_sig, case['fields'], case['allowed'], case['t'], case['now'], case['thr'], chain_lock)
    fails = []
    info = {'expected': exp}
    if got is True and exp:
        # the accepted certificates and signature again, in the same process, over other sigfield contents (and, apart from
        # that, at a time outside the first window): the reference decides - no verdict is remembered per signature or certificate
        f2 = {k: v + b'!' for k, v in case['fields'].items()}
        info['replayed'] = True
        for ff, tt in ((f2, case['t']), (case['fields'], 2 ** 31 - 1)):
            e2 = ref_accept(root_pk, certs, final_sig, ff, case['allowed'], tt, tt, case['thr'], chain_lock)
            if not e2 and run_lock(root_pk, certs, final_sig, ff, case['allowed'], tt, tt, case['thr'], chain_lock):
                fails.append(('delegation/%s/accepted-pair-still-accepted-%s' % ('chain-lock' if chain_lock else 'single-lock',
                              'over-other-sigfield-contents' if ff is f2 else 'at-another-time'), 'links=%d' % len(certs)))
    if got != exp:
        d = case.get('defect')
        what = d[0] if d else case.get('window', 'valid')
        fails.append(('delegation/%s/%s' % ('chain-lock' if chain_lock else 'single-lock',
                                            ('accepts-' + what) if got else ('rejects-' + what)),
                      'links=%d t=%d now=%d thr=%d: got %r expected %r' % (len(certs), case['t'], case['now'], case['thr'], got, exp)))
    return fails, info


def check_cert_roundtrip(pk, begin, end, can, sig):
    fails = []
    try:
        c = T.Certificate(pk, begin, end, can, sig)
        b = c.pack()
        c2 = T.Certificate.unpack(b)
        if c2 != c:
            fails.append(('certificate/unpack(pack(c))-differs', '%r vs %r' % (c2, c)))
        if c2.pack() != b:
            fails.append(('certificate/pack(unpack(b))-differs', ''))
        # serialisation follows the field values the object has NOW (a certificate edited after it was signed or packed)
        c3 = T.Certificate(pk, begin, end, can, sig)
        c3.preimage()
        c3.pack()
        c3.end_ts = (end + 1) % 2 ** 31
        c3.begin_ts = (begin + 7) % 2 ** 31
        c3.can_further_delegate = not can
        c3.delegate_pubkey = bytes(32 - len(pk[:31])) + pk[:31]
        b3 = c3.pack()
        want3 = c3.delegate_pubkey + c3.begin_ts.to_bytes(4, 'big') + c3.end_ts.to_bytes(4, 'big') + (b'\xff' if c3.can_further_delegate else b'\x00') + sig
        if b3 != want3:
            fails.append(('certificate/pack-after-edit-keeps-stale-fields', b3.hex()[:90]))
        elif T.Certificate.unpack(b3) != c3:
            fails.append(('certificate/unpack(pack(c))-differs-after-edit', ''))
        if len(b) != 105 or b[:32] != pk or int.from_bytes(b[32:36], 'big') != begin or int.from_bytes(b[36:40], 'big') != end \
                or b[40] != (255 if can else 0) or b[41:] != sig:
            fails.append(('certificate/pack-layout', b.hex()[:90]))
    except BaseException as e:  # noqa
        if isinstance(e, (KeyboardInterrupt, SystemExit)):
            raise
        fails.append(('certificate/raises-%s' % type(e).__name__, '%d %d %r' % (begin, end, can)))
    return fails


def check_case(case):
    k = case['check']
    if k == 'chain':
        if not 1 <= len(case['links']) <= 6 or case['t'] < 0 or case['now'] < 0 or case['t'] >= 2 ** 31:
            raise ValueError('domain')
        return evaluate(case)[0]
    if k == 'cert':
        if len(case['pk']) != 32 or len(case['sig']) != 64 or not 0 <= case['begin'] < 2 ** 31 or not 0 <= case['end'] < 2 ** 31:
            raise ValueError('domain')
        return check_cert_roundtrip(case['pk'], case['begin'], case['end'], bool(case['can']), case['sig'])
    raise ValueError(k)


DEFECTS = ['flip', 'flip', 'wrong-signer', 'swap', 'drop', 'splice', 'final-by-nonfinal', 'final-by-root', 'final-other-fields',
           'nonpermitted-flag']


@st.composite
def chain_case(draw):
    n = draw(st.integers(1, 6))
    t = draw(st.sampled_from([1_700_000_000, 1_700_000_000, 1000, 2 ** 31 - 3]))
    thr = draw(st.sampled_from([60, 60, 0, 1, 120]))
    now = t - draw(st.integers(0, max(0, thr - 3))) if thr > 0 else t - draw(st.integers(-100, 100))
    links = [{'begin': t - draw(st.sampled_from([0, 1, 2, 1000, 10 ** 9])), 'end': t + draw(st.sampled_from([1, 2, 3, 1000, 10 ** 8])),
              'can': True} for _ in range(n)]
    links[-1]['can'] = draw(st.booleans())
    fields = {'sigfield%d' % i: draw(st.binary(min_size=1, max_size=8)) for i in range(1, 9) if draw(st.integers(0, 2)) == 0} or {'sigfield1': b'm'}
    fields = gen_dict_order(draw, fields)
    allowed = draw(st.sampled_from([0, 0, 1, 0x81, 0xff]))
    case = {'check': 'chain', 'tag': draw(st.binary(min_size=1, max_size=2)), 'links': links, 't': t, 'now': max(0, now), 'thr': thr,
            'fields': fields, 'allowed': allowed, 'flag': draw(st.sampled_from([0, allowed, allowed & 1])),
            'chain_lock': draw(st.sampled_from([True, True, False])), 'defect': None, 'window': 'valid'}
    mode = draw(st.sampled_from(['valid', 'valid', 'window', 'window', 'nondelegable', 'slack', 'defect', 'defect', 'defect']))
    if mode == 'window':
        i = draw(st.integers(0, n - 1))
        w = draw(st.sampled_from(['t=begin', 't=begin-1', 't=end-1', 't=end', 't=end+1']))
        case['window'] = w
        if w == 't=begin':
            links[i]['begin'] = t
        elif w == 't=begin-1':
            links[i]['begin'] = t + 1
        elif w == 't=end-1':
            links[i]['end'] = t + 1
        elif w == 't=end':
            links[i]['end'] = t
        else:
            links[i]['end'] = max(0, t - 1)
    elif mode == 'nondelegable' and n >= 2:
        links[draw(st.integers(0, n - 2))]['can'] = False
        case['window'] = 'non-delegable-inner-certificate'
    elif mode == 'slack' and thr > 0:
        case['now'] = max(0, t - thr + draw(st.sampled_from([-1, 0, 1, 2])))
        case['window'] = 'slack-boundary'
    elif mode == 'defect':
        case['defect'] = [draw(st.sampled_from(DEFECTS)), draw(st.integers(0, 5)), draw(st.integers(0, 839))]
    return case


def task_chains(ctx):
    def one(c):
        fails, info = evaluate(c)
        nt = len(c['links']) >= 2 or c['window'] != 'valid' or c['defect'] is not None
        ctx.case(c, nt)
        ctx.count('expected:%s' % info['expected'])
        ctx.count('lock:' + ('chain' if c['chain_lock'] else 'single'))
        ctx.count('mode:' + (c['defect'][0] if c['defect'] else c['window']))
        ctx.count('links:%d' % len(c['links']))
        for s, d in fails:
            ctx.fail('chain', s, c, d)
        if nt and len(c['links']) <= 2:
            ctx.sample({k: v for k, v in c.items() if k != 'check'})
    hyp.drive(chain_case(), one, ctx.n(8000, 150000), ctx.seed)


def task_certs(ctx):
    vals = [0, 1, 127, 128, 255, 256, 65535, 65536, 2 ** 24 - 1, 2 ** 24, 2 ** 31 - 2, 2 ** 31 - 1, 1_700_000_000]
    n = 0
    for i, b in enumerate(vals):
        if i % ctx.nshards != ctx.shard:
            continue
        for e in vals:
            for can in (True, False):
                pk, sig = sha(b'pk%d' % b), sha(b's%d' % e) * 2
                fails = check_cert_roundtrip(pk, b, e, can, sig)
                ctx.case(('cert', b, e, can), True)
                n += 1
                for s, d in fails:
                    ctx.fail('cert', s, {'check': 'cert', 'pk': pk, 'begin': b, 'end': e, 'can': can, 'sig': sig}, d)
    ctx.exhaustive['certificate boundary field values (begin x end x can)'] = n


TASKS = {'chains': (task_chains, 16, 16), 'certs': (task_certs, 2, 4)}


def guards(tier, c, evaluations, nnt):
    msgs = []
    t, f = c.get('expected:True', 0), c.get('expected:False', 0)
    if t < 0.3 * (t + f):
        msgs.append('only %d of %d chains authorise' % (t, t + f))
    return msgs
