"""C01 - authorization verdict is exact; a witness cannot truncate or skip the lock."""
from __future__ import annotations
import copy
from .. import env, hyp, optable as O, refasm as R, render, builders, refvm, monitors
from ..util import headroom
from hypothesis import strategies as st

F, Cl, T = env.F, env.C, env.T
C = O.CODES
ID = 'C01'
LEVEL = 'exploration'
RULE = ('lists of 1-4 scripts x initial cache x limits. Families: (a) Hypothesis-generated structured witnesses (RETURN '
        'at nesting depth 0-3 inside IF / IF_ELSE / TRY / EXCEPT / LOOP / DEF+CALL / EVAL, function definitions incl. '
        'handles the lock calls, cache writes incl. keys returned/E/P, junk items, call-budget burning) followed by a '
        'structured lock without tape-level RETURN; (b) real builder witness/lock pairs with an adversarial script '
        'inserted before / between; (c) mutated byte soup and raw binary. Oracles: sentinel (FALSE VERIFY appended / '
        'prepended to the last or a middle script must make the verdict False), differential against a hand '
        'composition of the scripts through run_script / run_tape on one shared stack and cache (verdict must be equal '
        'in both directions), totality (never raises). non-trivial = >= 2 scripts, an earlier script contains RETURN / '
        'DEF / cache write / CALL / EVAL or leaves >= 2 items, and the last script has a control-flow construct or >= 3 '
        'instructions; distinct = digest of (scripts, cache, limits).'
        " Added oracles: the statement executed on the independent reference interpreter vt/refvm.py (verdict compared whenever the reference does not stop at an ambiguity); every case re-run with a 'returned' entry added to the initial cache (verdict must not change); task optimised: verdicts of ~400 generated lists and builder pairs compared with a fresh interpreter started with python -O; task errors: a failing program from the typed instruction generator (>= 6 exception types) at a random position. Script lists whose work explodes (> 60 000 tape reads) are skipped and counted."
        ' Task recursion: locks whose function calls itself under witness-supplied guards, failures caught by an outer activation of the same function (model oracle).')
ASSUMPTIONS = ['the hand composition reuses the implementation of single-script execution (run_script / run_tape); only '
               'the sequencing across scripts is independent', 'locks used for the sentinel oracle contain RETURN only '
               'inside DEF bodies or pushed-and-evaluated scripts']


def I(name, *ops):
    return ['i', C[name]] + list(ops)


SENT = bytes([C['OP_FALSE'], C['OP_VERIFY']])


def compose(scripts, cache_vals, limits):
    """Hand composition through the public API; the interpreter's own control
    residue is removed between scripts."""
    mi, ms, cl = limits
    had_marker_key = 'returned' in cache_vals
    try:
        tape, stack, cache = F.run_script(scripts[0], cache_vals, stack_max_items=mi, stack_max_item_size=ms,
                                          callstack_limit=cl)
        if not tape.has_terminated():
            return False
        for s in scripts[1:]:
            # the interpreter's RETURN marker (an attribute of the stack; a str cache key in older trees) is not carried over
            if hasattr(stack, 'returned'):
                stack.returned = False
            elif not had_marker_key:
                cache.pop('returned', None)
            t2 = Cl.Tape(s, callstack_limit=cl, callstack_count=tape.callstack_count, definitions=tape.definitions)
            t2.contracts = tape.contracts
            t2.plugins = tape.plugins
            F.run_tape(t2, stack, cache)
            if not t2.has_terminated():
                return False
            tape = t2
        return stack.list() == [b'\xff']
    except BaseException as e:  # noqa
        if isinstance(e, (KeyboardInterrupt, SystemExit)):
            raise
        return False


def ref_verdict(scripts, cache_vals, limits):
    """The statement, executed on the independent reference interpreter: every script in order on one stack, cache,
    definition table and call budget; a script's own RETURN ends that script only. -> True / False / None (the
    reference stops at something the specification leaves open)"""
    cache = {'timestamp': 1_700_000_000}
    cache.update({k: copy.deepcopy(v) for k, v in cache_vals.items()})
    r = refvm.Ref(cache, tuple(limits), int_enc=F.int_to_bytes, now=1_700_000_000, token_bytes=env.DetRandom(b'c01'), contracts={})
    defs = {}
    try:
        for s in scripts:
            r.run(s, defs, 0)
    except refvm.Err:
        return False
    except (refvm.Stop, RecursionError):
        return None
    return r.stack == [b'\xff']


def _auth(scripts, cache_vals, limits):
    mi, ms, cl = limits
    return F.run_auth_scripts(list(scripts), copy.deepcopy(cache_vals), stack_max_items=mi, stack_max_item_size=ms,
                              callstack_limit=cl)


def evaluate(scripts, cache_vals, limits, sentinel_ok):
    fails = []
    info = {}
    env.pin_clock(1_700_000_000)
    env.pin_random(b'c01')
    try:
        with headroom(1000):
            try:
                got = _auth(scripts, cache_vals, limits)
            except BaseException as e:  # noqa
                if isinstance(e, (KeyboardInterrupt, SystemExit)):
                    raise
                fails.append(('totality/raised-%s' % type(e).__name__, str(e)[:100]))
                return fails, info
            if got is not True and got is not False:
                fails.append(('totality/non-bool-verdict', repr(got)))
            info['verdict'] = got
            env.pin_random(b'c01')
            exp = compose(scripts, copy.deepcopy(cache_vals), limits)
            if got != exp:
                fails.append(('compose/%s' % ('authorises-but-composition-does-not' if got else
                                              'rejects-but-composition-authorises'),
                              '%s got %r' % ([s.hex()[:60] for s in scripts], got)))
            # independent model of the statement
            with headroom(3000):
                model = ref_verdict(scripts, cache_vals, limits)
            info['model'] = model
            if model is not None and model != got:
                fails.append(('model/%s' % ('authorises-but-the-specification-rejects' if got else 'rejects-but-the-specification-authorises'),
                              '%s got %r' % ([s.hex()[:60] for s in scripts], got)))
            # a 'returned' entry in the initial cache (the interpreter's RETURN marker used to live there: the cache handed back by an
            # earlier run_script carried it) must not end any script early
            if 'returned' not in cache_vals and not any(b'returned' in sc for sc in scripts):
                try:
                    if _auth(scripts, {**cache_vals, 'returned': True}, limits) != got:
                        fails.append(('marker/initial-cache-marker-changes-the-verdict', '%s got %r' % ([s.hex()[:60] for s in scripts], got)))
                except BaseException as e:  # noqa
                    if isinstance(e, (KeyboardInterrupt, SystemExit)):
                        raise
                    fails.append(('totality/raised-%s' % type(e).__name__, str(e)[:100]))
            # single-script API agrees
            if len(scripts) == 1:
                try:
                    one = F.run_auth_script(scripts[0], copy.deepcopy(cache_vals), stack_max_items=limits[0],
                                            stack_max_item_size=limits[1], callstack_limit=limits[2])
                    if one != got:
                        fails.append(('totality/run_auth_script-differs', repr(one)))
                except BaseException as e:  # noqa
                    if isinstance(e, (KeyboardInterrupt, SystemExit)):
                        raise
                    fails.append(('totality/run_auth_script-raised-%s' % type(e).__name__, str(e)[:100]))
            # Script objects instead of bytes
            try:
                objs = [T.Script.from_bytes(s) for s in scripts]
            except BaseException:  # noqa  (not decompilable: Script objects cannot be built for it)
                objs = None
            if objs is not None:
                try:
                    if _auth(objs, cache_vals, limits) != got:
                        fails.append(('totality/Script-objects-differ-from-bytes', ''))
                except BaseException as e:  # noqa
                    if isinstance(e, (KeyboardInterrupt, SystemExit)):
                        raise
                    fails.append(('totality/raised-%s-for-Script-objects' % type(e).__name__, str(e)[:100]))
            if sentinel_ok:
                last = scripts[-1]
                variants = [('tail', scripts[:-1] + [last + SENT]), ('head', scripts[:-1] + [SENT + last])]
                if len(scripts) >= 3:
                    mid = len(scripts) - 2
                    if sentinel_ok == 'all':
                        variants.append(('middle', scripts[:mid] + [scripts[mid] + SENT] + scripts[mid + 1:]))
                for name, sc in variants:
                    try:
                        if _auth(sc, cache_vals, limits):
                            fails.append(('sentinel/%s-skipped' % name, '%s' % ([s.hex()[:80] for s in sc],)))
                    except BaseException as e:  # noqa
                        if isinstance(e, (KeyboardInterrupt, SystemExit)):
                            raise
                        fails.append(('totality/raised-%s' % type(e).__name__, str(e)[:100]))
    finally:
        env.unpin_clock()
        env.unpin_random()
    return fails, info


def _has_tape_level_return(tree):
    """RETURN reachable at tape level: directly or inside IF / IFE / TRY / LOOP bodies."""
    for n in tree:
        if n[0] == 'i' and n[1] == C['OP_RETURN']:
            return True
        if n[0] in ('if', 'ife', 'try', 'loop'):
            for x in n[1:]:
                if isinstance(x, list) and _has_tape_level_return(x):
                    return True
    return False


def check_case(case):
    if case.get('check') == 'opt':
        return check_opt(case)
    if case.get('check') != 'auth':
        raise ValueError('check')
    lim = tuple(case['limits'])
    if len(lim) != 3 or min(lim) < 1:
        raise ValueError('limits')
    if 'progs' in case:
        progs = case['progs']
        if not 1 <= len(progs) <= 4:
            raise ValueError('1..4 scripts')
        scripts = [R.encode(render.lower(p)) for p in progs]
        sentinel = case.get('sentinel')
        if sentinel:
            if _has_tape_level_return(progs[-1]):
                raise ValueError('lock with tape-level RETURN')
            if sentinel == 'all' and len(progs) >= 3 and _has_tape_level_return(progs[-2]):
                sentinel = 'last'
    else:
        scripts = case['scripts']
        if not 1 <= len(scripts) <= 4 or any(not isinstance(s, bytes) for s in scripts):
            raise ValueError('1..4 scripts')
        sentinel = None
    cache_vals = case.get('cache', {})
    return evaluate(scripts, cache_vals, lim, sentinel)[0]


# ---------------------------------------------------------------- generators
PLAIN = [I('OP_FALSE'), I('OP_TRUE'), I('OP_TRUE'), I('OP_TRUE'), I('OP_POP0'), I('OP_DUP'), I('OP_VERIFY'), I('OP_NOT'),
         I('OP_DEPTH'), I('OP_EQUAL'), I('OP_SWAP2'), I('OP_SIZE'), ['push', b'\x00'], ['push', b'\x01'], ['push', b'\x01'],
         ['push', b'\xff'], ['push', b'\xff'], ['push', b'ab'], ['push', b'ab'], I('OP_TRUE'), I('OP_DEPTH')]
KEYS = [b'a', b'b', b'P', b'E', b'returned', b'x']


def script_tree(max_depth=3, tape_return=True):
    """tape_return=False: RETURN only inside DEF bodies / pushed-and-evaluated scripts."""
    def seq(depth, ret_here):
        @st.composite
        def node(draw):
            r = draw(st.integers(0, 99))
            if depth < max_depth and r < 30:
                k = draw(st.sampled_from(['if', 'if', 'ife', 'try', 'loop', 'def', 'evalpush']))
                if k == 'if':
                    return [draw(st.sampled_from([I('OP_TRUE'), I('OP_TRUE'), I('OP_FALSE')])), ['if', draw(seq(depth + 1, ret_here))]]
                if k == 'ife':
                    return [draw(st.sampled_from([I('OP_TRUE'), I('OP_FALSE')])),
                            ['ife', draw(seq(depth + 1, ret_here)), draw(seq(depth + 1, ret_here))]]
                if k == 'try':
                    return [['try', draw(seq(depth + 1, ret_here)), draw(st.one_of(st.just([]), seq(depth + 1, ret_here)))]]
                if k == 'loop':
                    return [I('OP_TRUE'), ['loop', [I('OP_POP0')] + draw(seq(depth + 1, ret_here)) + [I('OP_FALSE')]], I('OP_POP0')]
                if k == 'def':
                    return [['def', draw(st.integers(0, 2)), draw(seq(depth + 1, True))]]
                inner = draw(seq(depth + 1, True))
                try:
                    b = R.encode(render.lower(inner))
                except R.NotEncodable:
                    b = b''
                if 0 < len(b) < 250:
                    return [['push', b], I('OP_EVAL')]
                return [I('OP_TRUE')]
            if r < 40:
                return [I('OP_CALL', draw(st.integers(0, 2)))]
            if r < 50:
                return [I('OP_RETURN')] if ret_here else [I('OP_TRUE')]
            if r < 58:
                return [I('OP_WRITE_CACHE', draw(st.sampled_from(KEYS)), draw(st.integers(0, 1)))]
            if r < 62:
                return [I('OP_READ_CACHE', draw(st.sampled_from(KEYS)))]
            if r < 67:
                # evaluated code that returns: ends the evaluated code only, whatever construct encloses or follows the EVAL
                code = draw(st.sampled_from([[I('OP_RETURN')], [I('OP_TRUE'), I('OP_RETURN'), I('OP_FALSE')],
                                             [I('OP_TRUE'), ['if', [I('OP_RETURN')]], I('OP_TRUE')],
                                             [['try', [I('OP_RETURN')], []]], [['push', b'j'], I('OP_RETURN')]]))
                return [['push', R.encode(render.lower(code))], I('OP_EVAL')]
            if r < 70 and depth < max_depth:
                # a function that calls one defined (or redefined) only after it: late binding against the live table
                g = draw(st.integers(0, 2))
                h = (g + draw(st.integers(1, 2))) % 3
                return [['def', g, [I('OP_CALL', h)]], ['def', h, draw(seq(depth + 1, True))], I('OP_CALL', g)]
            return [draw(st.sampled_from(PLAIN))]
        return st.lists(node(), min_size=0, max_size=5).map(lambda ll: [x for l in ll for x in l])
    return seq(0, tape_return)


EPILOGUE = [I('OP_DEPTH'), ['loop', [I('OP_POP0'), I('OP_POP0'), I('OP_DEPTH')]], I('OP_POP0'), I('OP_TRUE')]

LIMS = st.tuples(st.one_of(st.sampled_from([1, 2, 3, 4, 16, 1024, 1024]), st.integers(1, 64)),
                 st.one_of(st.sampled_from([1, 2, 8, 64, 1024, 1024]), st.integers(1, 1024)),
                 st.sampled_from([1, 2, 3, 8, 16, 128, 128]))


@st.composite
def cache_st(draw):
    c = {}
    for i in (1, 2, 8):
        if draw(st.booleans()):
            c['sigfield%d' % i] = draw(st.binary(max_size=8))
    if draw(st.booleans()):
        c['timestamp'] = draw(st.integers(0, 2 ** 33))
    if draw(st.integers(0, 3)) == 0:
        c[draw(st.sampled_from(['extra', 'E', 'P']))] = draw(st.binary(max_size=4))
    if draw(st.integers(0, 3)) == 0:
        c[draw(st.sampled_from(KEYS))] = [draw(st.binary(max_size=4))]
    if draw(st.integers(0, 7)) == 0:
        c['returned'] = draw(st.sampled_from([True, False, 1, b'']))
    return c


@st.composite
def structured_case(draw):
    n_w = draw(st.integers(0, 3))
    wits = [draw(script_tree(3, True)) for _ in range(n_w)]
    lock = draw(script_tree(3, False))
    if draw(st.integers(0, 9)) < 8:
        lock = lock + EPILOGUE
    # middle script: make it return-free at tape level half of the time so the middle sentinel applies
    return wits + [lock], draw(cache_st()), draw(LIMS)


@st.composite
def budget_case(draw):
    """Witness scripts burn k top-level calls, the lock makes j; limit around k + j."""
    n_w = draw(st.integers(1, 3))
    ks = [draw(st.integers(0, 3)) for _ in range(n_w)]
    j = draw(st.integers(1, 3))
    body = draw(st.sampled_from([[], [I('OP_TRUE'), I('OP_POP0')], [I('OP_RETURN')]]))
    wits = []
    for i, k in enumerate(ks):
        w = ([['def', 0, body]] if i == 0 else []) + [I('OP_CALL', 0)] * k
        if draw(st.booleans()):
            w = w + [['push', b'j'], I('OP_POP0')]
        wits.append(w)
    lock = [I('OP_CALL', 0)] * j + [I('OP_TRUE')]
    total = sum(ks) + j
    lim = max(1, total + draw(st.sampled_from([-1, 0, 0, 1])))
    return wits + [lock], {}, (1024, 1024, lim)


def _static_nt(progs):
    if len(progs) < 2:
        return False

    def feats(tree):
        f = set()
        for n in tree:
            if n[0] == 'i':
                if n[1] in (C['OP_RETURN'],):
                    f.add('ret')
                if n[1] in (C['OP_CALL'], C['OP_EVAL']):
                    f.add('call')
                if n[1] in (C['OP_WRITE_CACHE'], C['OP_POP0'], C['OP_POP1']):
                    f.add('cache')
            elif n[0] == 'def':
                f.add('def')
            for x in n[1:]:
                if isinstance(x, list) and x and isinstance(x[0], list):
                    f |= feats(x)
        return f
    early = set()
    for p in progs[:-1]:
        early |= feats(p)
    last = progs[-1]
    return bool(early) and (R.count_nodes(render.lower(last)) >= 3)


def _one(ctx, scripts, cache_vals, lim, sentinel, case, nt):
    if not monitors.within_budget(scripts, cache_vals, lim):
        ctx.count('skipped:work-explodes (step budget)')
        return
    fails, info = evaluate(scripts, cache_vals, lim, sentinel)
    ctx.case((scripts, cache_vals, lim), nt)
    ctx.count('model:%s' % info.get('model'))
    ctx.count('verdict:%s' % info.get('verdict'))
    ctx.count('n_scripts:%d' % len(scripts))
    for s, d in fails:
        ctx.fail('auth', s, case, d)
    if nt and info.get('verdict') and sum(map(len, scripts)) < 120:
        ctx.sample({'scripts': scripts, 'cache': cache_vals, 'limits': list(lim), 'verdict': info.get('verdict')})


def task_structured(ctx):
    def one(t):
        progs, cache_vals, lim = t
        try:
            scripts = [R.encode(render.lower(p)) for p in progs]
        except R.NotEncodable:
            return
        sentinel = 'all' if (len(progs) >= 3 and not _has_tape_level_return(progs[-2])) else 'last'
        _one(ctx, scripts, cache_vals, lim, sentinel,
             {'check': 'auth', 'progs': progs, 'cache': cache_vals, 'limits': list(lim), 'sentinel': sentinel}, _static_nt(progs))
        if sentinel:
            ctx.count('sentinel-runs')
    hyp.drive(structured_case(), one, ctx.n(9000, 400000), ctx.seed)
    hyp.drive(budget_case(), one, ctx.n(1500, 40000), ctx.seed + 7)


def task_builders(ctx):
    outs = builders.builder_outputs(b'c01', '00', 3)
    sf = {'sigfield1': b'abc' + b'c01', 'sigfield3': b'xyz'}
    pairs = [('single_wit', 'single_lock'), ('single_wit2', 'single_lock2'), ('sh_wit', 'sh_lock'), ('gr_key', 'gr_lock'),
             ('htlc_wit', 'htlc'), ('htlc2_wit', 'htlc2'), ('ptlc_wit', 'ptlc'), ('tr_key', 'tr'), ('tr_scr', 'tr'),
             ('tr_key', 'ntr'), ('gt_key', 'gt'), ('mkb_unl0', 'mkb_lock'), ('mkp_unl1', 'mkp_lock'), ('dk_wit', 'dk_lock')]

    @st.composite
    def case(draw):
        w, l = draw(st.sampled_from(pairs))
        adv = draw(script_tree(3, True))
        pos = draw(st.sampled_from(['before', 'between', 'none']))
        return w, l, adv, pos, draw(st.sampled_from([(1024, 1024, 128), (1024, 1024, 8), (16, 1024, 128)]))

    def one(t):
        w, l, adv, pos, lim = t
        try:
            a = R.encode(render.lower(adv))
        except R.NotEncodable:
            return
        scripts = {'before': [a, outs[w], outs[l]], 'between': [outs[w], a, outs[l]], 'none': [outs[w], outs[l]]}[pos]
        cv = dict(sf, timestamp=15)
        _one(ctx, scripts, cv, lim, None, {'check': 'auth', 'scripts': scripts, 'cache': cv, 'limits': list(lim)},
             pos != 'none' and len(a) >= 2)
        ctx.count('builder-pair:' + pos)
    hyp.drive(case(), one, ctx.n(4000, 150000), ctx.seed + 1)


def task_soup(ctx):
    @st.composite
    def soup(draw):
        n = draw(st.integers(1, 4))
        out = []
        for _ in range(n):
            if draw(st.booleans()):
                out.append(draw(st.binary(min_size=1, max_size=40)))
            else:
                p = draw(script_tree(2, True))
                try:
                    b = bytearray(R.encode(render.lower(p)) or b'\x01')
                except R.NotEncodable:
                    b = bytearray(b'\x01')
                for _ in range(draw(st.integers(0, 2))):
                    b[draw(st.integers(0, len(b) - 1))] = draw(st.integers(0, 255))
                out.append(bytes(b))
        return out, draw(cache_st()), draw(LIMS)

    def one(t):
        scripts, cv, lim = t
        _one(ctx, scripts, cv, lim, None, {'check': 'auth', 'scripts': scripts, 'cache': cv, 'limits': list(lim)},
             len(scripts) >= 2 and len(scripts[-1]) >= 3)
    hyp.drive(soup(), one, ctx.n(8000, 400000), ctx.seed + 2)


def run_optimised(cases):
    """verdicts of run_auth_scripts for the cases in a fresh interpreter started with -O (assert statements stripped)"""
    import json, os, subprocess, sys, tempfile
    from ..util import to_jsonable
    fd, path = tempfile.mkstemp(prefix='vt-c01-opt-', suffix='.json')
    try:
        with os.fdopen(fd, 'w') as f:
            json.dump(to_jsonable(cases), f)
        root = os.path.dirname(os.path.dirname(os.path.dirname(os.path.abspath(__file__))))
        r = subprocess.run([sys.executable, '-O', '-m', 'vt.optworker', path], cwd=root, capture_output=True, text=True, timeout=1200,
                           env=dict(os.environ, PYTHONDONTWRITEBYTECODE='1', PYTHONHASHSEED='0'))
        if r.returncode != 0:
            raise RuntimeError('optimised worker failed: ' + r.stderr[-400:])
        d = json.loads(r.stdout.strip().splitlines()[-1])
        if not d['optimised']:
            raise RuntimeError('worker did not run with -O')
        return d['verdicts']
    finally:
        os.unlink(path)


def check_opt(case):
    scripts, cache, lim = case['scripts'], case.get('cache', {}), tuple(case['limits'])
    env.pin_clock(1_700_000_000)
    env.pin_random(b'c01')
    try:
        with headroom(1000):
            normal = _auth(scripts, cache, lim)
    finally:
        env.unpin_clock()
        env.unpin_random()
    (opt,) = run_optimised([{'scripts': scripts, 'cache': cache, 'limits': list(lim)}])
    if opt != normal:
        return [('totality/verdict-depends-on-the-interpreter-optimisation-flag', 'normal %r, python -O %r for %s' % (
            normal, opt, [x.hex()[:60] for x in scripts]))]
    return []


def task_optimised(ctx):
    """the verdict does not depend on whether the embedder's interpreter strips assert statements (python -O)"""
    cases = []

    def collect(t):
        progs, cache_vals, lim = t
        try:
            scripts = [R.encode(render.lower(p)) for p in progs]
        except R.NotEncodable:
            return
        if monitors.within_budget(scripts, cache_vals, lim):
            cases.append({'scripts': scripts, 'cache': cache_vals, 'limits': list(lim)})
    hyp.drive(structured_case(), collect, ctx.n(400, 20000), ctx.seed + 11)
    outs = builders.builder_outputs(b'c01', '00', 3)
    sf = {'sigfield1': b'abc' + b'c01', 'sigfield3': b'xyz', 'timestamp': 15}
    for w, l in (('single_wit', 'single_lock'), ('single_wit2', 'single_lock2'), ('tr_key', 'tr'), ('dk_wit', 'dk_lock'), ('htlc_wit', 'htlc')):
        cases.append({'scripts': [outs[w], outs[l]], 'cache': sf, 'limits': [1024, 1024, 128]})
        cases.append({'scripts': [bytes([C['OP_PUSH1'], 64]) + bytes(64), outs[l]], 'cache': sf, 'limits': [1024, 1024, 128]})
        cases.append({'scripts': [outs[l]], 'cache': sf, 'limits': [1024, 1024, 128]})
    normal = []
    for c in cases:
        env.pin_clock(1_700_000_000)
        env.pin_random(b'c01')
        try:
            with headroom(1000):
                normal.append(_auth(c['scripts'], c['cache'], tuple(c['limits'])))
        finally:
            env.unpin_clock()
            env.unpin_random()
    opt = run_optimised(cases)
    for c, a, b in zip(cases, normal, opt):
        ctx.case(('opt', c['scripts'], c['cache'], c['limits']), a is False)
        ctx.count('optimised:%s' % ('same' if a == b else 'DIFFERENT'))
        ctx.count('optimised-normal-verdict:%s' % a)
        if a != b:
            ctx.fail('opt', 'totality/verdict-depends-on-the-interpreter-optimisation-flag', dict(c, check='opt'),
                     'normal %r, python -O %r for %s' % (a, b, [x.hex()[:60] for x in c['scripts']]))


def task_errors(ctx):
    """every way an instruction can fail (interpreter, Python and libsodium exception types) somewhere in the list"""
    from vt.props import c06

    @st.composite
    def case(draw):
        n = draw(st.integers(1, 3))
        bad = draw(st.lists(c06.typed(), min_size=1, max_size=2).map(b''.join))
        pos = draw(st.integers(0, n - 1))
        out = []
        for i in range(n):
            if i == pos:
                out.append(bad)
            else:
                out.append(R.encode(render.lower(draw(script_tree(2, True)))) or b'\x01')
        return out, bad, draw(cache_st()), draw(st.sampled_from([(1024, 1024, 128), (1024, 1024, 128), (8, 64, 8)]))

    def one(t):
        scripts, bad, cv, lim = t
        env.pin_clock(1_700_000_000)
        try:
            F.run_script(bad, copy.deepcopy(cv))
            ctx.count('failure-kind:none')
        except BaseException as e:  # noqa
            if isinstance(e, (KeyboardInterrupt, SystemExit)):
                raise
            ctx.count('failure-kind:%s.%s' % (type(e).__module__, type(e).__name__))
        finally:
            env.unpin_clock()
        _one(ctx, scripts, cv, lim, None, {'check': 'auth', 'scripts': scripts, 'cache': cv, 'limits': list(lim)}, len(bad) >= 3)
    hyp.drive(case(), one, ctx.n(6000, 300000), ctx.seed + 3)


def task_recursion(ctx):
    """locks whose function calls itself under witness-supplied guards with failures caught by an outer activation (the
    C06 recursion family): the lock still runs from its first instruction to its own end"""
    from vt.props import c06
    op, push, blen = c06.op, c06.push, c06.blen
    drain = op('OP_DEPTH') + op('OP_LOOP') + blen(op('OP_POP0') * 2 + op('OP_DEPTH')) + op('OP_POP0') * 2 + op('OP_DEPTH') + op('OP_POP0')

    @st.composite
    def case(draw):
        code = draw(c06.recursion_case())[:-1]          # without the trailing DEPTH
        ndef = 4 + int.from_bytes(code[2:4], 'big')
        fn, rest = code[:ndef], code[ndef:]
        # the guards come from the witness, the function and its call are the lock; verdict = "the top item is Z" after the call
        i = 0
        while i < len(rest) and rest[i] in (C['OP_TRUE'], C['OP_FALSE']):
            i += 1
        witness, call = rest[:i], rest[i:]
        lock = (fn + call + push(b'Z') + op('OP_EQUAL') + bytes([C['OP_WRITE_CACHE'], 1]) + b'r' + b'\x01' + drain +
                bytes([C['OP_READ_CACHE'], 1]) + b'r')
        extra = draw(st.sampled_from([b'', b'', bytes([C['OP_TRUE']]), bytes([C['OP_FALSE']])]))
        return [witness + extra, lock], draw(st.sampled_from([(1024, 1024, 128), (1024, 1024, 128), (64, 64, 6), (1024, 1024, 3)]))

    def one(t):
        scripts, lim = t
        _one(ctx, scripts, {}, lim, None, {'check': 'auth', 'scripts': scripts, 'cache': {}, 'limits': list(lim)}, True)
    hyp.drive(case(), one, ctx.n(2500, 100000), ctx.seed + 6)


TASKS = {
    'recursion': (task_recursion, 2, 8),
    'optimised': (task_optimised, 1, 4),
    'errors': (task_errors, 8, 16),
    'structured': (task_structured, 14, 16),
    'builders': (task_builders, 6, 16),
    'soup': (task_soup, 8, 16),
}


def guards(tier, c, evaluations, nnt):
    msgs = []
    t, f = c.get('verdict:True', 0), c.get('verdict:False', 0)
    if t + f and t < 0.10 * (t + f):
        msgs.append('only %d of %d cases authorise' % (t, t + f))
    kinds = [k for k in c if k.startswith('failure-kind:') and not k.endswith(':none')]
    if len(kinds) < 6:
        msgs.append('only %d distinct exception types exercised by the errors task: %s' % (len(kinds), kinds))
    return msgs
