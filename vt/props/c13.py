"""C13 - signature and commitment lock builders: exactly the intended holder can unlock."""
from __future__ import annotations
import hashlib
from .. import env, hyp, optable as O, refasm as R, ed25519_ref as E
from ..recorder import Rec, CID, push, observed
from .c02 import msg_of
from .c05 import ref_root
from hypothesis import strategies as st
from ..gen import dict_order as gen_dict_order

F, T = env.F, env.T
C = O.CODES
ID = 'C13'
LEVEL = 'exploration'
RULE = ('Hypothesis cases: a lock kind with its parameters (single-sig, single-sig layout 2, m-of-n multisig, script-hash '
        'with hash sizes 1..64, graftroot, graftap) paired with a witness kind with ITS parameters (each of the sibling '
        'witness builders), drawn so that about half of the pairs match and the rest differ in exactly one respect '
        '(other key, covered field changed, excluded field changed, non-permitted flag, other committed / surrogate '
        'script, surrogate signed by another key) or are cross pairings of different builders. Oracle: the witness is '
        'reduced to the typed stack it leaves (it is a pure-push script) and a reference acceptance predicate per lock '
        'kind, written from the builder documentation on top of the RFC 8032 reference, decides the expected verdict; a '
        'recording contract shows whether a committed / surrogate script started. non-trivial = any perturbed or cross '
        'case, or a positive case with flag != 0 or >= 2 sigfields; distinct by case parameters.'
        ' Every accepted witness is replayed in the same process over other sigfield contents (the reference decides); flags over every subset of every allowed byte; sigfield dicts filled in a drawn order.')
ASSUMPTIONS = ['witness builders emit pure pushes (asserted per case; otherwise the case is skipped and counted)',
               'vt/ed25519_ref.py decides signature validity; hash commitments are collision-free except where the '
               'predicate evaluates the truncated hash itself (script-hash sizes down to 1 byte)']

sha = lambda b: hashlib.sha256(b).digest()  # noqa: E731


def shake(b, n):
    return hashlib.shake_256(b).digest(n)


def valid_sig(sig, pk, allowed, fields):
    """-> True / False (False also stands for 'error')."""
    if len(sig) not in (64, 65) or len(pk) != 32:
        return False
    flag = sig[64] if len(sig) == 65 else 0
    if flag & ~allowed & 0xff:
        return False
    return E.verify(pk, msg_of(fields, flag), sig[:64])


def own(stack_items, script, fields):
    """Verdict of `script` executed on a stack holding stack_items (implementation of single-script semantics)."""
    if not script:
        return False, []
    rec = Rec()
    pre = b''.join(push(i) if i else bytes([C['OP_PUSH1'], 0]) for i in stack_items)
    ok = F.run_auth_scripts([pre + script] if True else [], dict(fields), {CID: rec})
    return ok, rec.seen


def ref_accept(lock, st_, fields):
    """-> (expected verdict, expected recorder contents or None = do not care)"""
    k = lock['kind']
    if k == 'single':
        return (len(st_) == 1 and valid_sig(st_[0], lock['pk'], lock['allowed'], fields)), []
    if k == 'single2':
        if len(st_) != 2 or len(st_[1]) != 32 or shake(st_[1], 20) != shake(lock['pk'], 20):
            return False, []
        return valid_sig(st_[0], st_[1], lock['allowed'], fields), []
    if k == 'multisig':
        m, pks = lock['m'], lock['pks']
        if len(st_) != m:
            return (False, []) if len(st_) < m or True else (False, [])
        used = set()
        for s in st_:
            hit = None
            for i, pk in enumerate(pks):
                if i not in used and valid_sig(s, pk, lock['allowed'], fields):
                    hit = i
                    break
            if hit is None:
                return False, []
            used.add(hit)
        return True, []
    if k == 'scripthash':
        if not st_ or shake(st_[-1], lock['hs']) != shake(lock['script'], lock['hs']):
            return False, []
        ok, seen = own(st_[:-1], st_[-1], fields)
        return ok, seen
    if k == 'graftroot':
        if not st_:
            return False, []
        sel = st_[-1]
        if any(sel):
            if len(st_) < 3:
                return False, []
            script, sig = st_[-2], st_[-3]
            if len(sig) != 64 or not script or not E.verify(lock['pk'], script, sig):
                return False, []
            return own(st_[:-3], script, fields)
        rest = st_[:-1]
        return (len(rest) == 1 and valid_sig(rest[0], lock['pk'], lock['allowed'], fields)), []
    if k == 'graftap':
        if not st_:
            return False, []
        G = T._make_graftap_committed_script(lock['pk']).bytes
        root = ref_root(lock['pk'], G)
        if len(st_[-1]) == 32:
            if len(st_) < 2:
                return False, []
            key, script = st_[-1], st_[-2]
            try:
                match = E.dec(key) is not None and E.is_valid_point(key) and script and ref_root(key, script) == root
            except Exception:
                match = False
            if not match:
                return False, []
            rest = st_[:-2]
            if len(rest) < 2:
                return False, []
            sur, sig = rest[-1], rest[-2]
            if len(sig) != 64 or not sur or not E.verify(lock['pk'], sur, sig):
                return False, []
            return own(rest[:-2], sur, fields)
        return (len(st_) == 1 and valid_sig(st_[0], root, lock['allowed'], fields)), []
    raise ValueError(k)


def build_lock(lock):
    k = lock['kind']
    fl = '%02x' % lock.get('allowed', 0)
    if k == 'single':
        return T.make_single_sig_lock(lock['pk'], fl).bytes
    if k == 'single2':
        return T.make_single_sig_lock2(lock['pk'], fl).bytes
    if k == 'multisig':
        return T.make_multisig_lock(list(lock['pks']), lock['m'], fl).bytes
    if k == 'scripthash':
        return T.make_scripthash_lock(T.Script.from_bytes(lock['script']), lock['hs']).bytes
    if k == 'graftroot':
        return T.make_graftroot_lock(lock['pk'], fl).bytes
    if k == 'graftap':
        return T.make_graftap_lock(lock['pk'], fl).bytes
    raise ValueError(k)


def build_witness(w):
    k = w['kind']
    fl = '%02x' % w.get('flag', 0)
    f = w.get('fields', {})
    if k == 'single':
        return T.make_single_sig_witness(w['seed'], dict(f), fl).bytes
    if k == 'single2':
        return T.make_single_sig_witness2(w['seed'], dict(f), fl).bytes
    if k == 'multi':
        flags = w.get('flags') or [w.get('flag', 0)] * len(w['seeds'])
        return b''.join(T.make_single_sig_witness(s, dict(f), '%02x' % fg).bytes for s, fg in zip(w['seeds'], flags))
    if k == 'scripthash':
        return T.make_scripthash_witness(T.Script.from_bytes(w['script'])).bytes
    if k == 'graftroot-key':
        return T.make_graftroot_witness_keyspend(w['seed'], dict(f), fl).bytes
    if k == 'graftroot-surrogate':
        return T.make_graftroot_witness_surrogate(w['seed'], T.Script.from_bytes(w['script'])).bytes
    if k == 'graftap-key':
        if w.get('flag', 0) == 0xff:
            raise SkipCase('the key-spend witness builder documents that it refuses flag ff')
        return T.make_graftap_witness_keyspend(w['seed'], dict(f), fl).bytes
    if k == 'graftap-script':
        return T.make_graftap_witness_scriptspend(w['seed'], T.Script.from_bytes(w['script'])).bytes
    if k == 'graftap-script-foreign-signer':
        # rightful committed script and internal key, surrogate signed by w['other']
        pk = E.pub(w['seed'])
        return (push(E.sign(w['other'], w['script'])) + push(w['script']) +
                T.make_taproot_witness_scriptspend(pk, T._make_graftap_committed_script(pk)).bytes)
    raise ValueError(k)


class SkipCase(Exception):
    pass


def evaluate(case):
    fails = []
    lock, wit, fields = case['lock'], case['witness'], case['fields']
    try:
        lb = build_lock(lock)
        wb = build_witness(wit)
    except SkipCase as e:
        raise ValueError(str(e))
    except BaseException as e:  # noqa
        if isinstance(e, (KeyboardInterrupt, SystemExit)):
            raise
        # every parameter combination the generator draws is inside the documented domain of the builders
        return [('builders/%s-lock/builder-raises-%s' % (lock['kind'], type(e).__name__), str(e)[:100])], {'expected': None, 'matched': False}
    prog = R.decode(wb)
    pushes = (C['OP_PUSH0'], C['OP_PUSH1'], C['OP_PUSH2'], C['OP_TRUE'], C['OP_FALSE'])
    if not all(n[0] == 'i' and n[1] in pushes for n in prog):
        return fails, {'skip': 'witness is not pure pushes'}
    _, s, _ = F.run_script(wb)
    items = s.list()
    exp, exp_seen = ref_accept(lock, items, fields)
    rec = Rec()
    got = F.run_auth_scripts([wb, lb], dict(fields), {CID: rec})
    info = {'expected': exp, 'matched': case.get('matched')}
    if got is True and exp:
        # the accepted witness again, in the same process, over other sigfield contents: the reference decides (no verdict
        # is remembered per signature, key or lock)
        f2 = {k: v + b'!' for k, v in fields.items()}
        exp2, _ = ref_accept(lock, items, f2)
        info['replayed'] = True
        if not exp2 and F.run_auth_scripts([wb, lb], dict(f2), {CID: Rec()}):
            fails.append(('builders/%s-lock/accepted-witness-still-accepted-over-other-sigfield-contents' % lock['kind'], 'witness %s' % wit['kind']))
    if case.get('matched') and wit['kind'] in ('single', 'single2', 'multi', 'graftroot-key', 'graftap-key'):
        # the property itself: the builder's witness unlocks the matching lock
        if not got:
            fails.append(('builders/%s-lock/matching-builder-witness-does-not-unlock' % lock['kind'],
                          'witness %s (reference verdict on its stack: %r)' % (wit['kind'], exp)))
        return fails, info
    if got != exp:
        fails.append(('builders/%s-lock/%s' % (lock['kind'], 'rejects-rightful-witness' if exp else
                                               'accepts-%s' % case.get('perturbation', 'cross-' + wit['kind'])),
                      'witness %s perturbation %s: got %r expected %r' % (wit['kind'], case.get('perturbation'), got, exp)))
    elif not exp and rec.seen and exp_seen == []:
        fails.append(('builders/%s-lock/runs-script-of-rejected-witness' % lock['kind'], '%r' % (rec.seen,)))
    return fails, info


def check_case(case):
    if case.get('check') != 'pair':
        raise ValueError('check')
    lk = case['lock']
    if lk['kind'] == 'scripthash' and not 1 <= lk['hs'] <= 255:
        raise ValueError('hs')
    if lk['kind'] == 'multisig' and not (1 <= len(lk['pks']) <= 5 and 0 <= lk['m'] <= len(set(lk['pks']))):
        raise ValueError('multisig')
    for sd in [case['witness'].get('seed', bytes(32))] + list(case['witness'].get('seeds', [])):
        if len(sd) != 32:
            raise ValueError('seed')
    return evaluate(case)[0]


def seed_of(i, tag=b''):
    return sha(b'c13' + tag + bytes([i]))


BODIES = [bytes([C['OP_TRUE']]), bytes([C['OP_FALSE']]), bytes([C['OP_PUSH0'], 7, C['OP_EQUAL']]), bytes([C['OP_POP0'], C['OP_TRUE']]),
          bytes([C['OP_DEPTH'], C['OP_PUSH0'], 0, C['OP_EQUAL']])]


@st.composite
def fields_st(draw):
    f = {'sigfield%d' % i: draw(st.binary(min_size=1, max_size=10)) for i in range(1, 9) if draw(st.integers(0, 2)) == 0}
    return gen_dict_order(draw, f) if f else {'sigfield2': b'msg'}


@st.composite
def pair_case(draw):
    tag = draw(st.binary(min_size=1, max_size=2))
    fields = draw(fields_st())
    allowed = draw(st.one_of(st.sampled_from([0, 0, 1, 0x81, 0xff, 0x0f, 0x7f, 0x7e]), st.integers(0, 255)))
    # any subset of the permitted bits (each sigfield is covered / excluded independently of its neighbours)
    flag = draw(st.one_of(st.sampled_from([0, 0, allowed, allowed & 0x01, allowed & 0x80]), st.integers(0, 255).map(lambda m: allowed & m)))
    seed = seed_of(0, tag)
    pk = E.pub(seed)
    script = observed(b'\x51\x01', draw(st.sampled_from(BODIES)))
    kind = draw(st.sampled_from(['single', 'single2', 'multisig', 'scripthash', 'graftroot-key', 'graftroot-surrogate',
                                 'graftap-key', 'graftap-script']))
    lockkind = {'graftroot-key': 'graftroot', 'graftroot-surrogate': 'graftroot', 'graftap-key': 'graftap',
                'graftap-script': 'graftap'}.get(kind, kind)
    lock = {'kind': lockkind, 'pk': pk, 'allowed': allowed}
    wit = {'kind': kind if kind != 'multisig' else 'multi', 'seed': seed, 'fields': dict(fields), 'flag': flag, 'script': script}
    if lockkind == 'multisig':
        n = draw(st.integers(1, 4))
        m = draw(st.integers(1, n))
        seeds = [seed_of(i, tag) for i in range(n)]
        lock = {'kind': 'multisig', 'pks': [E.pub(s) for s in seeds], 'm': m, 'allowed': allowed}
        signers = draw(st.permutations(seeds))[:m]
        wit = {'kind': 'multi', 'seeds': list(signers), 'fields': dict(fields), 'flag': flag}
    if lockkind == 'scripthash':
        lock = {'kind': 'scripthash', 'script': script, 'hs': draw(st.one_of(st.sampled_from([1, 2, 20, 26, 32, 64, 127, 128, 200, 255]), st.integers(1, 64)))}
    case = {'check': 'pair', 'lock': lock, 'witness': wit, 'fields': fields, 'matched': True, 'perturbation': None}
    plist = ['none', 'none', 'none', 'other-key', 'covered-field', 'excluded-field', 'non-permitted-flag', 'cross', 'cross']
    if lockkind == 'multisig':
        plist = plist + ['same-signer-twice', 'same-signer-twice']
    if kind in ('scripthash', 'graftroot-surrogate', 'graftap-script'):
        plist = ['none', 'none', 'other-key', 'other-script', 'other-script', 'surrogate-foreign-signer',
                 'surrogate-foreign-signer', 'cross']
    p = draw(st.sampled_from(plist))
    if p == 'none':
        return case
    case['matched'] = False
    case['perturbation'] = p
    other = seed_of(9, tag)
    if p == 'other-key':
        if 'seed' in wit:
            wit['seed'] = other
        if 'seeds' in wit and wit['seeds']:
            wit['seeds'][0] = other
        if kind in ('scripthash',):
            case['matched'] = True
            case['perturbation'] = None
    elif p == 'same-signer-twice':
        # one holder signs twice (second signature under another permitted flag): still one signer
        bit = [b for b in range(8) if (allowed >> b) & 1][0] if allowed else 0
        if len(wit['seeds']) >= 2 and allowed and (flag | (1 << bit)) != 0xff:
            wit['seeds'][1] = wit['seeds'][0]
            wit['flags'] = [flag & ~(1 << bit), flag | (1 << bit)] + [flag] * (len(wit['seeds']) - 2)
        else:
            case['matched'], case['perturbation'] = True, None
    elif p == 'covered-field':
        cov = [k for k in sorted(fields) if not (flag >> (int(k[-1]) - 1)) & 1]
        if cov and 'fields' in wit and kind not in ('scripthash', 'graftroot-surrogate', 'graftap-script'):
            k = cov[draw(st.integers(0, len(cov) - 1))]
            wit['fields'][k] = fields[k] + b'!'
        else:
            case['matched'], case['perturbation'] = True, None
    elif p == 'excluded-field':
        exc = [k for k in sorted(fields) if (flag >> (int(k[-1]) - 1)) & 1]
        if exc and 'fields' in wit:
            k = exc[draw(st.integers(0, len(exc) - 1))]
            wit['fields'][k] = fields[k] + b'!'
        case['matched'] = True          # changes to excluded fields must not change the verdict
        case['perturbation'] = 'excluded-field'
    elif p == 'non-permitted-flag':
        bad = [b for b in range(8) if not (allowed >> b) & 1]
        badbit = bad[draw(st.integers(0, len(bad) - 1))] if bad else 0
        if bad and kind not in ('scripthash', 'graftroot-surrogate', 'graftap-script') and (flag | (1 << badbit)) != 0xff:
            wit['flag'] = flag | (1 << badbit)
        else:
            case['matched'], case['perturbation'] = True, None
    elif p == 'other-script':
        if kind in ('scripthash', 'graftroot-surrogate', 'graftap-script'):
            wit['script'] = observed(b'\x52\x02', draw(st.sampled_from(BODIES)))
            if kind != 'scripthash':
                # another surrogate signed by the rightful key is a rightful witness
                case['matched'] = True
                case['perturbation'] = 'other-surrogate-rightfully-signed'
        else:
            case['matched'], case['perturbation'] = True, None
    elif p == 'surrogate-foreign-signer':
        if kind in ('graftroot-surrogate',):
            wit['seed'] = other
        elif kind == 'graftap-script':
            wit['kind'] = 'graftap-script-foreign-signer'
            wit['other'] = other
        else:
            case['matched'], case['perturbation'] = True, None
    elif p == 'cross':
        wk = draw(st.sampled_from(['single', 'single2', 'scripthash', 'graftroot-key', 'graftroot-surrogate', 'graftap-key',
                                   'graftap-script']))
        case['witness'] = {'kind': wk, 'seed': seed, 'fields': dict(fields), 'flag': flag, 'script': script}
        case['matched'] = None           # evaluated, never assumed
        case['perturbation'] = 'cross-' + wk
    return case


def task_pairs(ctx):
    def one(c):
        try:
            fails, info = evaluate(c)
        except ValueError:
            return
        if info.get('skip'):
            ctx.count('skipped:' + info['skip'])
            return
        flag = c['witness'].get('flag', 0)
        nt = c['perturbation'] is not None or flag != 0 or len(c['fields']) >= 2
        ctx.case(c, nt)
        ctx.count('lock:' + c['lock']['kind'])
        ctx.count('perturbation:%s' % c['perturbation'])
        ctx.count('expected:%s' % info['expected'])
        if info.get('replayed'):
            ctx.count('accepted witness replayed over other sigfield contents')
        for s, d in fails:
            ctx.fail('pair', s, c, d)
        if nt:
            ctx.sample({k: v for k, v in c.items() if k != 'check'})
    hyp.drive(pair_case(), one, ctx.n(14000, 300000), ctx.seed)


TASKS = {'pairs': (task_pairs, 16, 16)}


def guards(tier, c, evaluations, nnt):
    msgs = []
    if c.get('expected:True', 0) < 0.2 * evaluations or c.get('expected:False', 0) < 0.2 * evaluations:
        msgs.append('verdict classes unbalanced %r' % {k: v for k, v in c.items() if k.startswith('expected')})
    return msgs
