"""C20 - unassigned opcodes are soft-fork-safe no-ops."""
from __future__ import annotations
from .. import env, hyp, optable as O, refasm as R, monitors
from hypothesis import strategies as st

F, P, T = env.F, env.P, env.T
C = O.CODES
ID = 'C20'
LEVEL = 'exploration'
RULE = ('part 1 (complete): every code 92..255 x every count byte 0..255 x stack depths {0,1,count-1,count,count+1,130} '
        'through run_script against the documented NOP semantics (signed count, error if negative or > depth, exactly '
        'count items removed, nothing else touched, tape advanced by 2), plus compile/decompile naming for every code x '
        'count. part 2 (generated): fork ops following the readme contract (predicates all-equal, first-true, '
        'even-length, never, always) installed with add_soft_fork at free codes under upper/lower/mixed-case names with '
        '0-2 aliases; generated scripts using the forked code at any nesting depth (never inside TRY); oracle: '
        'authorises on the upgraded VM => authorises on the old VM, identical final state when the fork op did not '
        'raise, name/alias spellings compile on the upgraded VM to the bytes of the NOPn spelling on the old VM and '
        'are accepted wherever the NOPn spelling is, decompile names the op and round-trips. non-trivial (part 1) = '
        'count != 0; (part 2) = count >= 1 with a raising predicate, or the op is nested; distinct by case tuple.'
        ' Alias-free forks are installed without the aliases argument together with a sibling fork; every text case starts with a refused install after which the code must still be a NOP.')
ASSUMPTIONS = ['old VM = pristine registries of the worker process; upgraded VM = same process after add_soft_fork, '
               'registries restored in place afterwards', 'fork ops follow the readme contract (read one signed count '
               'byte, pull that many items, raise or not)']


# ------------------------------------------------------------------ part 1
def check_nop(code, cnt, depth):
    signed = cnt - 256 if cnt > 127 else cnt
    items = [bytes([(i * 7 + 1) % 251]) for i in range(depth)]
    pre = b''.join(bytes([C['OP_PUSH0']]) + it for it in items)
    script = pre + bytes([code, cnt]) + bytes([C['OP_PUSH0'], 0x77])
    try:
        tape, stack, cache = F.run_script(script, {'sigfield1': b'x'})
        out = ('ok', stack.list(), {k: v for k, v in cache.items() if isinstance(k, bytes)}, tape.pointer == len(script),
               cache.get('sigfield1'))
    except env.SEE:
        out = ('see',)
    except BaseException as e:  # noqa
        out = ('err', type(e).__name__)
    if signed < 0:
        ok = out == ('see',)
    elif signed > depth:
        ok = out[0] in ('see', 'err')       # "an error": the statement does not fix its type
    else:
        ok = out == ('ok', items[:depth - signed] + [b'\x77'], {}, True, b'x')
    if not ok:
        what = 'negative-count-accepted' if signed < 0 and out[0] == 'ok' else (
            'count-exceeds-stack-accepted' if signed > depth and out[0] == 'ok' else 'wrong-effect')
        return [('nop/' + what, 'code %d count %d depth %d -> %r' % (code, cnt, depth, out[:2]))]
    return []


def check_nop_text(code, cnt):
    fails = []
    signed = cnt - 256 if cnt > 127 else cnt
    want = bytes([code, cnt])
    for src in ('NOP%d d%d' % (code, signed), 'NOP%d x%02x' % (code, cnt), 'nop%d x%02x' % (code, cnt)):
        try:
            b = P.compile_script(src)
        except BaseException as e:  # noqa
            fails.append(('nop-text/compile-rejects', '%s: %r' % (src, e)))
            continue
        if b != want:
            fails.append(('nop-text/compile-wrong-bytes', '%s -> %s' % (src, b.hex())))
    try:
        lst = P.decompile_script(want)
        if len(lst) != 1 or lst[0].split()[0] != 'NOP%d' % code:
            fails.append(('nop-text/decompile-name', repr(lst)))
        elif P.compile_script('\n'.join(lst)) != want:
            fails.append(('nop-text/listing-recompiles-differently', repr(lst)))
    except BaseException as e:  # noqa
        fails.append(('nop-text/decompile-or-recompile-raises', '%02x%02x: %r' % (code, cnt, e)))
    return fails


def task_nop(ctx):
    n = 0
    for code in range(92 + ctx.shard, 256, ctx.nshards):
        for cnt in range(256):
            signed = cnt - 256 if cnt > 127 else cnt
            for depth in sorted({0, 1, max(signed - 1, 0), max(signed, 0), max(signed, 0) + 1, 130}):
                fails = check_nop(code, cnt, depth)
                ctx.case(('nop', code, cnt, depth), cnt != 0)
                n += 1
                for s, d in fails:
                    ctx.fail('nop', s, {'check': 'nop', 'code': code, 'cnt': cnt, 'depth': depth}, d)
            fails = check_nop_text(code, cnt)
            ctx.case(('nop-text', code, cnt), cnt != 0)
            n += 1
            for s, d in fails:
                ctx.fail('nop-text', s, {'check': 'nop-text', 'code': code, 'cnt': cnt}, d)
        if code % 40 == 0:
            ctx.sample({'check': 'nop', 'code': code, 'cnt': 131, 'depth': 130})
    ctx.exhaustive['NOP codes x count bytes x depths (+ compile/decompile per code x count)'] = n


# ------------------------------------------------------------------ part 2
KINDS = ['all_equal', 'first_true', 'even_length', 'never', 'always']


def make_op(kind, log):
    def op(tape, stack, cache):
        n = F.bytes_to_int(tape.read(1))
        if n < 0:
            log.append('raised')
            raise env.SEE('negative count')
        items = [stack.get() for _ in range(n)]
        bad = False
        if kind == 'all_equal' and len(set(items)) > 1:
            bad = True
        elif kind == 'first_true' and items and not any(items[0]):
            bad = True
        elif kind == 'even_length' and sum(len(i) for i in items) % 2:
            bad = True
        elif kind == 'always':
            bad = True
        if bad:
            log.append('raised')
            raise env.SEE('fork op check failed')
        log.append('passed')
    return op


def _fork_nodes(code):
    return st.builds(lambda c: ['i', code, c], st.sampled_from([0, 0, 1, 1, 2, 2, 3, 5, 128, 255]))


def script_tree(code):
    """Source tree using `code`, never inside TRY / EXCEPT (nor inside pushed scripts evaluated there)."""
    pushes = st.builds(lambda v: ['push', v], st.sampled_from([b'\x00', b'\x01', b'\x01', b'\x07', b'ab', b'ab', b'\xff']))
    leaf_plain = st.one_of(pushes, pushes,
        st.builds(lambda v: ['push', v], st.sampled_from([b'\x00', b'\x01', b'\x01', b'\x07', b'ab', b'ab', b'\xff', b''])
                  .filter(lambda v: len(v) > 0)),
        st.sampled_from([['i', C['OP_TRUE']], ['i', C['OP_FALSE']], ['i', C['OP_DUP']], ['i', C['OP_POP0']],
                         ['i', C['OP_EQUAL']], ['i', C['OP_NOT']], ['i', C['OP_SWAP2']], ['i', C['OP_SIZE']],
                         ['i', C['OP_DEPTH']], ['i', C['OP_VERIFY']], ['i', C['OP_READ_CACHE'], b'P'],
                         ['i', C['OP_WRITE_CACHE'], b'k', 1], ['i', C['OP_RETURN']], ['i', C['OP_CONCAT']]]))

    def seq(depth, allow_fork):
        leaf = st.one_of(leaf_plain, _fork_nodes(code)) if allow_fork else leaf_plain
        if depth >= 3:
            return st.lists(leaf, min_size=0, max_size=4)

        @st.composite
        def node(draw):
            r = draw(st.integers(0, 9))
            if r < 6:
                return [draw(leaf)]
            k = draw(st.sampled_from(['if', 'ife', 'loop', 'defcall', 'eval', 'try']))
            if k == 'if':
                return [['i', C['OP_TRUE']] if draw(st.booleans()) else ['push', b'\x00'], ['if', draw(seq(depth + 1, allow_fork))]]
            if k == 'ife':
                return [['push', draw(st.sampled_from([b'\x00', b'\x01']))],
                        ['ife', draw(seq(depth + 1, allow_fork)), draw(seq(depth + 1, allow_fork))]]
            if k == 'loop':
                body = [['i', C['OP_POP0']]] + draw(seq(depth + 1, allow_fork)) + [['i', C['OP_FALSE']]]
                return [['i', C['OP_TRUE']], ['loop', body], ['i', C['OP_POP0']]]
            if k == 'defcall':
                h = draw(st.integers(0, 3))
                return [['def', h, draw(seq(depth + 1, allow_fork))], ['i', C['OP_CALL'], h]]
            if k == 'eval':
                inner = draw(seq(depth + 1, allow_fork))
                try:
                    b = R.encode(lower(inner))
                except R.NotEncodable:
                    b = b''
                if 0 < len(b) < 250:
                    return [['push', b], ['i', C['OP_EVAL']]]
                return [['i', C['OP_TRUE']]]
            return [['try', draw(seq(depth + 1, False)), draw(seq(depth + 1, False))]]
        return st.lists(node(), min_size=0, max_size=4).map(lambda ll: [x for l in ll for x in l])
    epilogue = [['i', C['OP_DEPTH']], ['loop', [['i', C['OP_POP0']], ['i', C['OP_POP0']], ['i', C['OP_DEPTH']]]],
                ['i', C['OP_POP0']], ['i', C['OP_TRUE']]]
    return st.tuples(seq(0, True), st.integers(0, 9)).map(lambda t: t[0] + (epilogue if t[1] < 7 else []))


def lower(tree):
    from .. import render
    return render.lower(tree)


def _state(script):
    try:
        t, s, c = F.run_script(script, {})
        return ('ok', s.list(), {k: v for k, v in c.items() if isinstance(k, bytes)})
    except BaseException as e:  # noqa
        if isinstance(e, (KeyboardInterrupt, SystemExit)):
            raise
        return ('err', type(e).__name__)


def _uses_nested(tree, code, depth=0):
    for n in tree:
        if n[0] == 'i' and n[1] == code and depth > 0:
            return True
        for x in n[1:]:
            if isinstance(x, list) and x and isinstance(x[0], list) and _uses_nested(x, code, depth + 1):
                return True
    return False


def _has_raising_use(tree, code):
    for n in tree:
        if n[0] == 'i' and n[1] == code and n[2] >= 1:
            return True
        for x in n[1:]:
            if isinstance(x, list) and x and isinstance(x[0], list) and _has_raising_use(x, code):
                return True
    return False


def check_fork_script(code, kind, name, aliases, script):
    """old VM first, then upgraded VM, registries restored afterwards."""
    fails = []
    env.restore_registries(env.PRISTINE)
    old_auth = F.run_auth_scripts([script])
    old_state = _state(script)
    log = []
    try:
        T.add_soft_fork(code, name, make_op(kind, log), list(aliases))
        new_auth = F.run_auth_scripts([script])
        del log[:]
        new_state = _state(script)
        raised = 'raised' in log
    finally:
        env.restore_registries(env.PRISTINE)
    if new_auth and not old_auth:
        fails.append(('fork/authorises-on-upgraded-only', '%s kind=%s code=%d' % (script.hex(), kind, code)))
    if not raised and new_state != old_state:
        fails.append(('fork/state-differs-without-raise', '%s kind=%s: new %r old %r' % (script.hex(), kind, new_state, old_state)))
    return fails, dict(old_auth=old_auth, new_auth=new_auth, raised=raised, used=len(log))


TEMPLATES = ['{n} {v} true', 'true if {{ {n} {v} }}', 'try {{ {n} {v} }}', 'true loop {{ {n} {v} pop0 false }}',
             'def 0 {{ {n} {v} }}', 'if ( true ) {{ {n} {v} }} else {{ {n} {v} }}', 'push ~ {{ {n} {v} }} eval',
             'op_push1 x0102 {n} {v} true', 'push2 x0102 {n} {v} true', 'true if {{ push1 x01 {n} {v} }}',
             'def 1 {{ op_push1 x01 {n} {v} }}', 'true {n} {v} {n} {v}', '@= a [ x01 ] {n} {v}', 'true # c # {n} {v}']


def _compile(src):
    try:
        return P.compile_script(src)
    except BaseException as e:  # noqa
        if isinstance(e, (KeyboardInterrupt, SystemExit)):
            raise
        return e


def check_fork_text(code, name, aliases, cnt):
    """Reachability by name / aliases and identical bytes."""
    fails = []
    env.restore_registries(env.PRISTINE)
    vals = ['x%02x' % cnt] + (['d%d' % cnt] if cnt < 128 else [])
    old = {}
    for ti, tpl in enumerate(TEMPLATES):
        for v in vals:
            old[(ti, v)] = _compile(tpl.format(n='NOP%d' % code, v=v))
    try:
        # history: an install that is refused (the name lacks the OP_ prefix) leaves the code what it was - a NOP
        try:
            T.add_soft_fork(code, 'BAD' + name[3:], make_op('never', []))
            fails.append(('fork-text/install-without-OP_-prefix-accepted', name))
        except BaseException as e:  # noqa
            if isinstance(e, (KeyboardInterrupt, SystemExit)):
                raise
        after = _compile('NOP%d x00' % code)
        if after != bytes([code, 0]):
            fails.append(('fork-text/code-is-no-NOP-any-more-after-a-refused-install', 'NOP%d x00 -> %r' % (code, after)))
        else:
            try:
                F.run_script(bytes([code, 0]))
                if P.decompile_script(bytes([code, 0])) != ['NOP%d d0' % code]:
                    fails.append(('fork-text/code-is-no-NOP-any-more-after-a-refused-install', 'decompile %r' % (P.decompile_script(bytes([code, 0])),)))
            except BaseException as e:  # noqa
                if isinstance(e, (KeyboardInterrupt, SystemExit)):
                    raise
                fails.append(('fork-text/code-is-no-NOP-any-more-after-a-refused-install', 'run / decompile raises %s' % type(e).__name__))
        if aliases:
            T.add_soft_fork(code, name, make_op('never', []), list(aliases))
        else:
            # no aliases argument at all, and a second fork installed the same way at another free code: each name reaches
            # its own code
            T.add_soft_fork(code, name, make_op('never', []))
            code2 = 92 + (code - 92 + 37) % 164
            sib = 'OP_SIBLING%d' % code2
            T.add_soft_fork(code2, sib, make_op('never', []))
            nb = _compile('%s x00' % sib)
            if nb != bytes([code2, 0]):
                fails.append(('fork-text/second-fork-not-reachable-by-its-name', '%s -> %r' % (sib, nb)))
        spellings = [name, name.upper(), name.lower()] + [a for a in aliases] + [a.upper() for a in aliases] + \
                    [a.lower() for a in aliases]
        for sp in dict.fromkeys(spellings):
            for ti, tpl in enumerate(TEMPLATES):
                for v in vals:
                    o = old[(ti, v)]
                    nw = _compile(tpl.format(n=sp, v=v))
                    where = 'top-level' if ti == 0 else tpl.split()[0 if ti not in (1, 3) else 1]
                    kindsp = 'name' if sp.upper() == name.upper() else 'alias'
                    if isinstance(o, bytes) and isinstance(nw, bytes):
                        if o != nw:
                            fails.append(('fork-text/bytes-differ/%s' % kindsp, '%r: %s vs NOP spelling %s' % (
                                tpl.format(n=sp, v=v), nw.hex(), o.hex())))
                    elif isinstance(o, bytes):
                        cased = 'upper' if sp == sp.upper() else ('lower' if sp == sp.lower() else 'mixed')
                        reg = 'registered-%s' % ('upper' if (name if kindsp == 'name' else ''.join(aliases)) ==
                                                 (name if kindsp == 'name' else ''.join(aliases)).upper() else 'non-upper')
                        fails.append(('fork-text/unreachable-by-%s/%s/in-%s' % (kindsp, reg, 'def' if ti == 4 else 'other'),
                                      '%r rejected on the upgraded VM (%s: %s); spelled %s' % (
                                          tpl.format(n=sp, v=v), type(nw).__name__, str(nw)[:80], cased)))
        # decompile on the upgraded VM
        b = bytes([code, cnt])
        try:
            lst = P.decompile_script(b)
            if len(lst) != 1 or lst[0].split()[0] != name.upper():
                fails.append(('fork-text/decompile-name', '%r for %s' % (lst, name)))
            else:
                rb = _compile('\n'.join(lst))
                if rb != b:
                    fails.append(('fork-text/listing-does-not-recompile', '%r -> %r' % (lst, rb)))
        except BaseException as e:  # noqa
            if isinstance(e, (KeyboardInterrupt, SystemExit)):
                raise
            fails.append(('fork-text/decompile-raises/%s' % ('name-upper' if name == name.upper() else 'name-non-upper'),
                          '%s: %r' % (name, e)))
    finally:
        env.restore_registries(env.PRISTINE)
    # dedupe signatures
    seen, out = set(), []
    for s, d in fails:
        if s not in seen:
            seen.add(s)
            out.append((s, d))
    return out


NAMES = ['OP_FORK_TEST', 'op_fork_test', 'Op_Fork_Test', 'OP_F2']
ALIASES = [[], ['FKT'], ['FKT', 'FK_2'], ['fkt'], ['Fkt', 'OP_FKT']]


def check_case(case):
    k = case['check']
    if k == 'nop':
        if not (92 <= case['code'] <= 255 and 0 <= case['cnt'] <= 255 and 0 <= case['depth'] <= 1000):
            raise ValueError('domain')
        return check_nop(case['code'], case['cnt'], case['depth'])
    if k == 'nop-text':
        return check_nop_text(case['code'], case['cnt'])
    if k == 'fork':
        if case['kind'] not in KINDS or not 92 <= case['code'] <= 255:
            raise ValueError('domain')
        tree = case['prog']
        _assert_no_fork_in_try(tree, case['code'])
        script = R.encode(lower(tree))
        return check_fork_script(case['code'], case['kind'], case['name'], case['aliases'], script)[0]
    if k == 'fork-text':
        return check_fork_text(case['code'], case['name'], case['aliases'], case['cnt'])
    raise ValueError(k)


def _assert_no_fork_in_try(tree, code, in_try=False):
    for n in tree:
        if n[0] == 'i' and n[1] == code and in_try:
            raise ValueError('fork op inside TRY')
        if n[0] == 'push' and in_try and bytes([code]) in n[1]:
            raise ValueError('possible fork op in pushed script inside TRY')
        for x in n[1:]:
            if isinstance(x, list) and x and isinstance(x[0], list):
                _assert_no_fork_in_try(x, code, in_try or n[0] == 'try')


def task_fork(ctx):
    codes = list(range(92, 256))
    per_cfg = 60
    ncfg = max(1, ctx.n(15000, 600000) // per_cfg)
    import hashlib
    for i in range(ncfg):
        h = hashlib.sha256(b'%d:%d:%d' % (ctx.seed, ctx.shard, i)).digest()
        code = codes[(h[0] * 256 + h[1]) % len(codes)] if not ctx.thorough() else codes[(ctx.shard + i * ctx.nshards) % len(codes)]
        kind = KINDS[h[2] % len(KINDS)]
        name = NAMES[0]          # behaviour does not depend on the spelling; spelling is task_text's job
        aliases = []

        def one(tree, code=code, kind=kind):
            try:
                script = R.encode(lower(tree))
            except R.NotEncodable:
                return
            if not monitors.within_budget([script]):
                ctx.count('skipped:work-explodes (step budget)')
                return
            fails, info = check_fork_script(code, kind, name, aliases, script)
            nt = (kind != 'never' and _has_raising_use(tree, code)) or _uses_nested(tree, code)
            ctx.case((code, kind, script), nt)
            ctx.count('fork:' + ('both-auth' if info['new_auth'] and info['old_auth'] else
                                 'old-only' if info['old_auth'] else 'neither' if not info['new_auth'] else 'NEW-ONLY'))
            ctx.count('fork-op-' + ('raised' if info['raised'] else ('passed' if info['used'] else 'not-executed')))
            for s, d in fails:
                ctx.fail('fork', s, {'check': 'fork', 'code': code, 'kind': kind, 'name': name, 'aliases': aliases,
                                     'prog': tree}, d)
            if nt and info['new_auth']:
                ctx.sample({'check': 'fork', 'code': code, 'kind': kind, 'script': script, 'old_auth': info['old_auth']})
        hyp.drive(script_tree(code), one, per_cfg, ctx.seed + i)


def task_text(ctx):
    codes = list(range(92, 256))
    combos = [(n, a) for n in NAMES for a in ALIASES]
    sel = codes if ctx.thorough() else [92, 93, 127, 128, 200, 254, 255, 100, 150, 199, 222, 180]
    k = 0
    for ci, code in enumerate(sel):
        for ni, (name, aliases) in enumerate(combos):
            k += 1
            if k % ctx.nshards != ctx.shard:
                continue
            for cnt in (0, 3, 127, 128, 255) if ctx.thorough() else (3, 200):
                fails = check_fork_text(code, name, aliases, cnt)
                ctx.case(('text', code, name, tuple(aliases), cnt), True)
                ctx.count('text:name-' + ('upper' if name == name.upper() else 'non-upper'))
                for s, d in fails:
                    ctx.fail('fork-text', s, {'check': 'fork-text', 'code': code, 'name': name, 'aliases': aliases, 'cnt': cnt}, d)
                if ni == 2 and cnt == 3 and ci < 2:
                    ctx.sample({'check': 'fork-text', 'code': code, 'name': name, 'aliases': aliases, 'cnt': cnt})


TASKS = {
    'nop': (task_nop, 16, 16),
    'fork': (task_fork, 12, 16),
    'text': (task_text, 4, 16),
}


def guards(tier, c, evaluations, nnt):
    msgs = []
    if c.get('fork:both-auth', 0) < 20:
        msgs.append('fewer than 20 scripts authorise on both VMs (%d)' % c.get('fork:both-auth', 0))
    if c.get('fork-op-raised', 0) < 20 or c.get('fork-op-passed', 0) < 20:
        msgs.append('fork op raise/pass classes too small')
    return msgs
