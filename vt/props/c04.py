"""C04 - merklized scripts: only committed branches run, and every committed branch can."""
from __future__ import annotations
import hashlib
from .. import env, hyp, optable as O, refasm as R, render, monitors
from ..recorder import Rec, CID, push, observed
from .c01 import script_tree
from hypothesis import strategies as st

F, T = env.F, env.T
C = O.CODES
ID = 'C04'
LEVEL = 'exploration'
RULE = ('all 65 binary tree shapes with <= 6 leaves (quick; plus Hypothesis shapes of 7-8 leaves and generated leaf bodies) '
        'built with ScriptLeaf / ScriptNode, and make_script_tree_prioritized / _balanced / make_merklized_script_* for '
        'every leaf count 1..24; for every leaf x 3 pre-witnesses the honest proof, and per leaf eight data-level '
        'corruption kinds (bit flip in a script / sibling hash / root, swapped levels, swapped pair items, dropped / '
        'duplicated level, foreign leaf) re-encoded as pure-push witnesses. Observation: a recording contract invoked as '
        'first instruction of every leaf. Oracle: reference Merkle verifier (sha256(sha256(script)) xor sha256(sibling) == '
        'node, level by level) decides which leaf, if any, may start; verdict = the leaf\'s own verdict for honest proofs, '
        'False with an empty recorder when the chain breaks; pack/unpack preserves root and unlocking scripts. '
        'non-trivial = >= 3 leaves or any corruption; distinct by (shape, leaf index, pre-witness, corruption).'
        " Serialisation restores a second tree of another shape over the same leaf scripts before asking both restored trees for every proof, commits one script at two positions, re-packs; trees are also grown step by step with every new subtree's leaves asked for their proofs before the subtree is embedded."
        ' Every honest case also builds the pruned copy of the tree (hash-only leaves except the proving one): same root, lock and proof.')
ASSUMPTIONS = ['leaf scripts stay below stack_max_item_size (documented precondition of commit-then-EVAL constructions)',
               'leaf scripts are pairwise distinct (unique tag), so sibling commitments differ as the property requires']

sha = lambda b: hashlib.sha256(b).digest()  # noqa: E731
MV = C['OP_MERKLEVAL']


def xor(a, b):
    return bytes(x ^ y for x, y in zip(a, b))


BODIES = [bytes([C['OP_TRUE']]), bytes([C['OP_FALSE']]), bytes([C['OP_VERIFY']]),
          bytes([C['OP_PUSH0'], 7, C['OP_EQUAL']]), bytes([C['OP_POP0'], C['OP_TRUE']]),
          bytes([C['OP_TRUE'], C['OP_RETURN'], C['OP_FALSE']])]
PRES = [b'', bytes([C['OP_TRUE']]), bytes([C['OP_PUSH0'], 7])]


def big_body(total):
    """a leaf body that makes the whole observed leaf script exactly `total` bytes long (pads with a pushed blob)"""
    base = len(observed(b'\x00\x5a', b''))
    tail = bytes([C['OP_POP0'], C['OP_TRUE']])
    n = total - base - len(tail)
    for hdr in (2, 3):
        blob = n - hdr
        if (hdr == 2 and 2 <= blob <= 255) or (hdr == 3 and blob >= 256):
            return push(b'f' * blob) + tail
    return bytes([C['OP_TRUE']])


BIG_SIZES = [255, 256, 257, 300, 640, 1000, 1024]


def shapes(n):
    """all binary tree shapes with n leaves as nested tuples / 'L'."""
    if n == 1:
        return ['L']
    out = []
    for k in range(1, n):
        for a in shapes(k):
            for b in shapes(n - k):
                out.append((a, b))
    return out


def build(shape, leaf_scripts, touch=False):
    """-> (root node or leaf, leaves in left-to-right order).  touch: ask every leaf of every subtree for its proof as soon as
    the subtree exists (a tree grown step by step by someone who looks at intermediate proofs), before it is embedded further"""
    it = iter(leaf_scripts)
    leaves = []

    def rec(s):
        if s == 'L':
            lf = T.ScriptLeaf.from_script(T.Script.from_bytes(next(it)))
            leaves.append(lf)
            return lf
        nd = T.ScriptNode(rec(s[0]), rec(s[1]))
        if touch:
            for lf in _leaves_of(nd):
                lf.unlocking_script()
        return nd
    return rec(shape), leaves


def proof_pairs(leaf):
    """data-level proof: list of [sibling commitment, script] bottom-to-top."""
    pairs = []
    node = leaf
    while node.parent is not None:
        sib = node.parent.right if node.parent.left is node else node.parent.left
        pairs.append([sib.commitment(), node.script.bytes if isinstance(node, T.ScriptLeaf) else node.locking_script().bytes])
        node = node.parent
    return pairs


def ref_walk(pairs, root, tags):
    """Reference Merkle verifier. -> (chain_ok, tag of the leaf that may start or None)"""
    cur = root
    for sib, scr in reversed(pairs):
        if len(sib) == 0 or len(scr) == 0:
            return False, None
        if xor(sha(sha(scr)), sha(sib)) != cur:
            return False, None
        if len(scr) == 33 and scr[0] == MV:
            cur = scr[1:]
            continue
        # a committed non-node script starts here
        return True, tags.get(scr)
    return False, None        # ran out of pairs before reaching a leaf (the lock would fail on an empty stack)


def run_proof(pre, witness, lock_bytes):
    rec = Rec()
    ok = F.run_auth_scripts([pre, witness, lock_bytes] if pre else [witness, lock_bytes], {}, {CID: rec})
    return ok, rec.seen


def own_verdict(pre, leaf_script):
    rec = Rec()
    return F.run_auth_scripts([pre, leaf_script] if pre else [leaf_script], {}, {CID: rec})


def enc_pairs(pairs):
    return b''.join(push(bytes(a)) + push(bytes(b)) for a, b in pairs)


CORRUPTIONS = ['flip_script', 'flip_sibling', 'flip_root', 'swap_levels', 'swap_pair', 'drop_level', 'dup_level', 'foreign_leaf']


def corrupt(pairs, kind, k1, k2):
    cp = [[bytearray(a), bytearray(b)] for a, b in pairs]
    if kind == 'flip_script':
        t = cp[k1 % len(cp)][1]
        t[(k2 // 8) % len(t)] ^= 1 << (k2 % 8)
    elif kind == 'flip_sibling':
        t = cp[k1 % len(cp)][0]
        t[(k2 // 8) % len(t)] ^= 1 << (k2 % 8)
    elif kind == 'swap_levels':
        if len(cp) < 2:
            return None
        i = k1 % len(cp)
        j = (i + 1 + k2 % (len(cp) - 1)) % len(cp)
        cp[i], cp[j] = cp[j], cp[i]
    elif kind == 'swap_pair':
        t = cp[k1 % len(cp)]
        t[0], t[1] = t[1], t[0]
    elif kind == 'drop_level':
        if len(cp) < 2:
            return None
        del cp[k1 % len(cp)]
    elif kind == 'dup_level':
        i = k1 % len(cp)
        cp.insert(i, [bytearray(cp[i][0]), bytearray(cp[i][1])])
    elif kind == 'foreign_leaf':
        cp[0][1] = bytearray(observed(b'\xfa\xfa', BODIES[k2 % len(BODIES)]))
    else:
        return None
    return [[bytes(a), bytes(b)] for a, b in cp]


def _comb(n, left):
    s = 'L'
    for _ in range(n - 1):
        s = (s, 'L') if left else ('L', s)
    return s


def _leaves_of(nd):
    out = []
    for ch in (nd.left, nd.right):
        out.extend([ch] if isinstance(ch, T.ScriptLeaf) else _leaves_of(ch))
    return out


def check_tree(shape, bodies, leaf_idx, pre, corruption=None, k1=0, k2=0, dup=None, touch=False):
    fails = []
    n = len(bodies)
    scripts = [observed(bytes([i, 0x5a]), bodies[i]) for i in range(n)]
    tags = {scripts[i]: bytes([i, 0x5a]) for i in range(n)}
    if dup is not None and corruption is None and n >= 3:
        # the same script committed at two positions of one tree
        scripts[dup[1] % n] = scripts[dup[0] % n]
    if any(len(s) > 1024 for s in scripts):
        raise ValueError('leaf too large')
    if shape == 'L':
        raise ValueError('a tree needs two leaves')
    tree, leaves = build(shape, scripts, touch and corruption is None)
    lock = tree.locking_script().bytes
    root = tree.root()
    leaf = leaves[leaf_idx % n]
    pairs = proof_pairs(leaf)
    info = {'depth': len(pairs)}
    if corruption is None:
        try:
            w = leaf.unlocking_script().bytes
        except BaseException as e:  # noqa
            if isinstance(e, (KeyboardInterrupt, SystemExit)):
                raise
            return [('merkle/unlocking_script-raises-%s' % type(e).__name__, 'leaf of %d bytes: %s' % (len(leaf.script.bytes), str(e)[:80]))], info
        if w != enc_pairs(pairs):
            fails.append(('merkle/unlocking_script-is-not-the-proof-path', ''))
        ok, seen = run_proof(pre, w, lock)
        own = own_verdict(pre, leaf.script.bytes)
        if seen != [tags[leaf.script.bytes]]:
            fails.append(('merkle/honest-proof-runs-wrong-leaves', 'ran %r expected %r' % (seen, [tags[leaf.script.bytes]])))
        elif ok != own:
            fails.append(('merkle/verdict-differs-from-leaf-own-verdict', 'lock %r leaf alone %r' % (ok, own)))
        # a pruned copy of the tree (whoever holds one branch knows the other leaves by their commitments only: ScriptLeaf(hash)
        # without a script): same root, same lock, and the known leaf proves itself exactly as in the full tree
        try:
            it2 = iter(range(n))

            def pruned(s_):
                if s_ == 'L':
                    i = next(it2)
                    if i == leaf_idx % n:
                        return T.ScriptLeaf.from_script(T.Script.from_bytes(scripts[i]))
                    return T.ScriptLeaf(leaves[i].commitment())
                return T.ScriptNode(pruned(s_[0]), pruned(s_[1]))
            pt = pruned(shape)
            known = [x for x in _leaves_of(pt) if x.script is not None]
            if pt.root() != root or pt.locking_script().bytes != lock:
                fails.append(('merkle/pruned-tree-has-another-root', ''))
            elif len(known) != 1 or known[0].unlocking_script().bytes != w:
                fails.append(('merkle/pruned-tree-gives-another-proof', ''))
        except BaseException as e:  # noqa
            if isinstance(e, (KeyboardInterrupt, SystemExit)):
                raise
            fails.append(('merkle/pruned-tree-raises-%s' % type(e).__name__, str(e)[:80]))
        # serialisation: this tree and a second tree over the same leaf scripts are both packed, then both read back,
        # then every leaf of both restored trees must still give its own proof
        try:
            want = [x.unlocking_script().bytes for x in leaves]
            shape_b = _comb(n, True) if shape != _comb(n, True) else _comb(n, False)
            tree_b, leaves_b = build(shape_b, scripts)
            want_b = [x.unlocking_script().bytes for x in leaves_b]
            packed, packed_b = tree.pack(), tree_b.pack()
            t2 = T.ScriptNode.unpack(packed)
            first = [x.unlocking_script().bytes for x in _leaves_of(t2)]
            t3 = T.ScriptNode.unpack(packed_b)
            if t2.root() != root or t3.root() != tree_b.root():
                fails.append(('merkle/pack-unpack-changes-root', ''))
            elif first != want:
                fails.append(('merkle/pack-unpack-changes-unlocking-scripts', ''))
            elif [x.unlocking_script().bytes for x in _leaves_of(t2)] != want or [x.unlocking_script().bytes for x in _leaves_of(t3)] != want_b:
                fails.append(('merkle/pack-unpack-changes-unlocking-scripts/after-restoring-a-second-tree', ''))
            elif t2.pack() != packed:
                fails.append(('merkle/pack-unpack-pack-differs', ''))
        except BaseException as e:  # noqa
            if isinstance(e, (KeyboardInterrupt, SystemExit)):
                raise
            fails.append(('merkle/pack-unpack-raises-%s' % type(e).__name__, str(e)[:80]))
        return fails, info
    if corruption == 'flip_root':
        lk = bytearray(lock)
        lk[1 + (k2 // 8) % 32] ^= 1 << (k2 % 8)
        lock2, root2, cp = bytes(lk), bytes(lk[1:]), pairs
    else:
        cp = corrupt(pairs, corruption, k1, k2)
        if cp is None:
            info['skipped'] = True
            return fails, info
        lock2, root2 = lock, root
    chain_ok, tag = ref_walk(cp, root2, tags)
    ok, seen = run_proof(pre, enc_pairs(cp), lock2)
    info['still_valid'] = chain_ok
    if not chain_ok:
        if seen:
            fails.append(('merkle/uncommitted-proof-executes-a-leaf/%s' % corruption, 'ran %r' % (seen,)))
        if ok:
            fails.append(('merkle/uncommitted-proof-authorises/%s' % corruption, ''))
    else:
        want = [tag] if tag is not None else []
        if seen != want:
            fails.append(('merkle/valid-chain-runs-wrong-leaves/%s' % corruption, 'ran %r expected %r' % (seen, want)))
    return fails, info


def check_builder(builder, n, pre_idx):
    """builder outputs for n leaves: the i-th unlocking script runs input leaf i and nothing else."""
    fails = []
    scripts = [observed(bytes([i, 0xb0]), BODIES[0 if i % 3 else 4] if (i + n) % 5 else big_body(BIG_SIZES[(i + n) % len(BIG_SIZES)]))
               for i in range(n)]
    leaves_in = [T.Script.from_bytes(s) for s in scripts]
    env.pin_random(b'c04-%d' % n)
    try:
        return _check_builder(builder, n, pre_idx, scripts, leaves_in)
    except BaseException as e:  # noqa
        if isinstance(e, (KeyboardInterrupt, SystemExit)):
            raise
        return [('merkle-builder/%s-raises-%s' % (builder, type(e).__name__), 'n=%d: %s' % (n, str(e)[:80]))]
    finally:
        env.unpin_random()


def _check_builder(builder, n, pre_idx, scripts, leaves_in):
    fails = []
    try:
        if builder in ('prioritized', 'balanced'):
            mk = T.make_merklized_script_prioritized if builder == 'prioritized' else T.make_merklized_script_balanced
            lock, unlocks = mk(list(leaves_in))
            lockb = lock.bytes
            unl = [u.bytes for u in unlocks]
        else:
            mk = T.make_script_tree_prioritized if builder == 'tree_prioritized' else T.make_script_tree_balanced
            tree = mk(list(leaves_in))
            lockb = tree.locking_script().bytes
            found = {}

            def walk(nd):
                for ch in (nd.left, nd.right):
                    if isinstance(ch, T.ScriptLeaf):
                        found[ch.script.bytes] = ch
                    else:
                        walk(ch)
            walk(tree)
            if any(s not in found for s in scripts):
                return [('merkle-builder/%s-drops-a-leaf' % builder, 'n=%d' % n)]
            unl = [found[s].unlocking_script().bytes for s in scripts]
    finally:
        pass
    if len(unl) < n:
        return [('merkle-builder/%s-returns-too-few-unlocking-scripts' % builder, 'n=%d got %d' % (n, len(unl)))]
    pre = PRES[pre_idx % len(PRES)]
    for i in range(n):
        ok, seen = run_proof(pre, unl[i], lockb)
        own = own_verdict(pre, scripts[i])
        if seen != [bytes([i, 0xb0])]:
            fails.append(('merkle-builder/%s-unlocking-script-runs-wrong-leaf' % builder, 'n=%d i=%d ran %r' % (n, i, seen)))
            break
        if ok != own:
            fails.append(('merkle-builder/%s-verdict-differs-from-leaf' % builder, 'n=%d i=%d' % (n, i)))
            break
    return fails


def check_case(case):
    k = case['check']
    if k == 'tree':
        shape = _to_shape(case['shape'])
        bodies = case['bodies']
        if _count(shape) != len(bodies) or not 2 <= len(bodies) <= 10:
            raise ValueError('shape/bodies')
        if case.get('corruption') is not None and case['corruption'] not in CORRUPTIONS:
            raise ValueError('corruption')
        return check_tree(shape, bodies, case['leaf'], case['pre'], case.get('corruption'), case.get('k1', 0), case.get('k2', 0), case.get('dup'), bool(case.get('touch')))[0]
    if k == 'builder':
        if not 1 <= case['n'] <= 40:
            raise ValueError('n')
        return check_builder(case['builder'], case['n'], case.get('pre', 0))
    raise ValueError(k)


def _to_shape(x):
    if x == 'L':
        return 'L'
    if isinstance(x, (list, tuple)) and len(x) == 2:
        return (_to_shape(x[0]), _to_shape(x[1]))
    raise ValueError('shape')


def _count(s):
    return 1 if s == 'L' else _count(s[0]) + _count(s[1])


def _shape_json(s):
    return 'L' if s == 'L' else [_shape_json(s[0]), _shape_json(s[1])]


def _do_tree(ctx, shape, bodies, li, pre, cor, k1, k2, dup=None, touch=False):
    fails, info = check_tree(shape, bodies, li, pre, cor, k1, k2, dup, touch)
    if info.get('skipped'):
        return
    n = len(bodies)
    case = {'check': 'tree', 'shape': _shape_json(shape), 'bodies': bodies, 'leaf': li, 'pre': pre, 'corruption': cor, 'k1': k1, 'k2': k2}
    if dup is not None:
        case['dup'] = list(dup)
        ctx.count('case:same-script-at-two-positions')
    if touch:
        case['touch'] = True
        ctx.count('case:proofs-asked-while-the-tree-grows')
    ctx.case((case['shape'], bodies, li, pre, cor, k1, k2, dup, touch), n >= 3 or cor is not None)
    ctx.count('case:' + (cor or 'honest'))
    if cor and info.get('still_valid'):
        ctx.count('corruption-still-valid')
    for s, d in fails:
        ctx.fail('tree', s, case, d)
    if n >= 4 and li == 1 and cor in (None, 'swap_levels') and pre:
        ctx.sample({k: v for k, v in case.items() if k != 'check'})


def task_shapes(ctx):
    max_n = 6
    allshapes = [(n, s) for n in range(2, max_n + 1) for s in shapes(n)]
    cnt = 0
    for idx, (n, shape) in enumerate(allshapes):
        if idx % ctx.nshards != ctx.shard:
            continue
        bodies = [BODIES[(i * 5 + idx) % len(BODIES)] for i in range(n)]
        # leaf sizes on both sides of 2^8 and up to the item limit, in rotating positions
        bodies[idx % n] = big_body(BIG_SIZES[idx % len(BIG_SIZES)])
        if n >= 4:
            bodies[(idx + 2) % n] = big_body(BIG_SIZES[(idx + 3) % len(BIG_SIZES)])
        for li in range(n):
            for pre in PRES:
                _do_tree(ctx, shape, bodies, li, pre, None, 0, 0)
            if n >= 3:
                _do_tree(ctx, shape, bodies, li, PRES[idx % 3], None, 0, 0, (li, (li + 2 + idx % (n - 2)) % n))
                _do_tree(ctx, shape, bodies, li, PRES[(idx + 1) % 3], None, 0, 0, None, True)
            for ci, cor in enumerate(CORRUPTIONS):
                for rep in range(2 if not ctx.thorough() else 8):
                    h = hashlib.sha256(b'%d:%d:%d:%d:%d' % (ctx.base_seed, idx, li, ci, rep)).digest()
                    _do_tree(ctx, shape, bodies, li, PRES[h[2] % 3], cor, h[0], h[1] * 256 + h[3])
        cnt += 1
    ctx.exhaustive['binary tree shapes with 2..6 leaves (every leaf honest x 3 pre-witnesses + 8 corruption kinds)'] = cnt


def task_builders(ctx):
    jobs = [(b, n) for b in ('prioritized', 'balanced', 'tree_prioritized', 'tree_balanced') for n in range(1, 25)]
    cnt = 0
    for i, (b, n) in enumerate(jobs):
        if i % ctx.nshards != ctx.shard:
            continue
        for pre_idx in range(3):
            fails = check_builder(b, n, pre_idx)
            ctx.case(('builder', b, n, pre_idx), n >= 3, n=n)
            cnt += 1
            for s, d in fails:
                ctx.fail('builder', s, {'check': 'builder', 'builder': b, 'n': n, 'pre': pre_idx}, d)
        if n in (5, 17) and b == 'balanced':
            ctx.sample({'check': 'builder', 'builder': b, 'n': n})
    ctx.exhaustive['builder x leaf count 1..24 x pre-witness'] = cnt


@st.composite
def rand_shape(draw, n):
    if n == 1:
        return 'L'
    k = draw(st.integers(1, n - 1))
    return (draw(rand_shape(k)), draw(rand_shape(n - k)))


@st.composite
def rand_case(draw):
    n = draw(st.integers(2, 8))
    shape = draw(rand_shape(n))
    bodies = []
    for _ in range(n):
        r = draw(st.integers(0, 5))
        if r == 0:
            bodies.append(big_body(draw(st.sampled_from(BIG_SIZES))))
        elif r < 4:
            bodies.append(draw(st.sampled_from(BODIES)))
        else:
            t = draw(script_tree(2, True))
            try:
                b = R.encode(render.lower(t))
            except R.NotEncodable:
                b = b''
            bodies.append(b if 0 < len(b) <= 180 else BODIES[0])      # never truncate: a cut instruction is not a script
    cor = draw(st.sampled_from([None] + CORRUPTIONS + CORRUPTIONS))
    dup = None
    if cor is None and n >= 3 and draw(st.booleans()):
        dup = tuple(draw(st.lists(st.integers(0, n - 1), min_size=2, max_size=2, unique=True)))
    return (shape, bodies, draw(st.integers(0, n - 1)), draw(st.sampled_from(PRES)), cor, draw(st.integers(0, 255)), draw(st.integers(0, 65535)),
            dup, cor is None and draw(st.integers(0, 3)) == 0)


def task_random(ctx):
    def one(t):
        if any(b not in BODIES and len(b) <= 200 and not monitors.within_budget([b]) for b in t[1]):
            ctx.count('skipped:work-explodes (step budget)')
            return
        try:
            _do_tree(ctx, *t)
        except ValueError:
            pass
    hyp.drive(rand_case(), one, ctx.n(2500, 120000), ctx.seed)


TASKS = {'shapes': (task_shapes, 13, 16), 'builders': (task_builders, 8, 16), 'random': (task_random, 8, 16)}
