"""C03 - multisig passes only with m valid signatures from m different listed keys."""
from __future__ import annotations
import hashlib
import itertools
from .. import env, hyp, optable as O, ed25519_ref as E
from .c02 import msg_of, push, run
from hypothesis import strategies as st
from ..gen import dict_order as gen_dict_order
from nacl.signing import SigningKey

F, T = env.F, env.T
C = O.CODES
ID = 'C03'
LEVEL = 'exploration'
RULE = ('Hypothesis cases: n in 1..5 distinct keys, m in 0..n (+ a few m > n), a multiset of m signature items drawn '
        'from {valid by listed signer i, valid by outsider, exact duplicate, same signer with another permitted flag, '
        'non-permitted flag, bit-flipped, wrong length}, key and signature orders (all n!*m! orders for n <= 3, 24 '
        'drawn otherwise); bare OP_CHECK_MULTISIG(_VERIFY) through run_script and make_multisig_lock + concatenated '
        'make_single_sig_witness through run_auth_scripts. Oracle: specification predicate on the generator\'s ground '
        'truth (every item well-formed, permitted, valid under a listed key, signers pairwise distinct), never true '
        'otherwise, verdict invariant under every order. non-trivial = the multiset contains a duplicate / flag '
        'variant / outsider / corruption, or m = n, or a non-identity order; distinct by (n, m, item kinds, orders).'
        ' Also witnesses shorter than the quorum: the instruction asks for 1-2 more signatures than supplied (nothing or foreign items below them): never true. Every accepted quorum that carries a non-zero flag is run again, in the same process, with one carried flag bit removed from the permitted set: never true (no verdict is remembered across instructions).')
ASSUMPTIONS = ['keys are distinct, so a signature is valid under at most one listed key (greedy matching is exact)',
               'a lock that lists the same key twice is outside the quantifier (n distinct keys): there one signer can confirm two slots with '
               'two encodings of one signature (64 bytes / 64 bytes + flag byte 00)',
               'signatures are produced with libsodium; a sample of positive verdicts is re-verified with the RFC 8032 reference']


BELOW = [b'', b'\x01', b'\xff', bytes(64), bytes(65)]


def seeds_for(tag, n):
    return [hashlib.sha256(b'c03' + tag + bytes([i])).digest() for i in range(n)]


def build_items(case):
    """-> (sig bytes list, ground truth list of (kind, signer or None, wellformed, permitted))"""
    n, fields, allowed = case['n'], case['fields'], case['allowed']
    sd = seeds_for(case['tag'], n + 2)
    sigs, truth = [], []
    for it in case['items']:
        kind = it[0]
        if kind == 'dup':
            if not sigs:
                kind, it = 'valid', ('valid', 0, 0)
            else:
                j = it[1] % len(sigs)
                sigs.append(sigs[j])
                truth.append(('dup',) + truth[j][1:])
                continue
        signer = it[1] % n if kind != 'outsider' else n + (it[1] % 2)
        flag = it[2] & 0xff if len(it) > 2 else 0
        if kind in ('valid', 'outsider', 'bitflip', 'wronglen'):
            flag &= allowed          # permitted flag
        if kind == 'flagvar':
            flag = (flag & allowed) or 0
        if kind == 'nonperm':
            bad = [b for b in range(8) if not (allowed >> b) & 1]
            if not bad:
                kind = 'valid'
                flag &= allowed
            else:
                flag = (flag & allowed) | (1 << bad[it[1] % len(bad)])
        s = SigningKey(sd[signer]).sign(msg_of(fields, flag)).signature + (bytes([flag]) if flag else b'')
        well, perm = True, (flag & ~allowed) & 0xff == 0
        if kind == 'bitflip':
            x = bytearray(s)
            pos = it[3] % 512 if len(it) > 3 else 7
            x[pos // 8] ^= 1 << (pos % 8)
            s = bytes(x)
            signer_truth = None
        elif kind == 'wronglen':
            s = [s[:63], s[:64] + b'\x00\x00', s[:10]][(it[3] if len(it) > 3 else 0) % 3]
            well = False
            signer_truth = None
        elif kind == 'outsider':
            signer_truth = None
        else:
            signer_truth = signer
        sigs.append(s)
        truth.append((kind, signer_truth, well, perm, flag))
    return sd, sigs, truth


def predicate(truth):
    """-> 'true' | 'not-true' ; may_raise"""
    may_raise = any((not t[2]) or (not t[3]) for t in truth)
    signers = []
    for t in truth:
        if not t[2] or not t[3] or t[1] is None:
            return 'not-true', may_raise
        signers.append((t[1], t[4]) if False else t[1])
    if len(set(signers)) != len(signers):
        return 'not-true', may_raise
    return 'true', may_raise


def run_bare(keys, sigs, allowed, m, n, fields, verify=False, below=()):
    code = b''.join(push(s) for s in below) + b''.join(push(s) for s in sigs) + b''.join(push(k) for k in keys)
    code += bytes([C['OP_CHECK_MULTISIG_VERIFY' if verify else 'OP_CHECK_MULTISIG'], allowed, m, n])
    if verify:
        code += bytes([C['OP_TRUE']])
    return run(code, fields)


def orders(case, n, m):
    if n <= 3 and m <= 3:
        return list(itertools.product(itertools.permutations(range(n)), itertools.permutations(range(m))))
    out = [(tuple(range(n)), tuple(range(m)))]
    h = hashlib.sha256(repr(case.get('order_seed', 0)).encode()).digest()
    import random
    rnd = random.Random(h)
    for _ in range(23):
        kp, sp = list(range(n)), list(range(m))
        rnd.shuffle(kp)
        rnd.shuffle(sp)
        out.append((tuple(kp), tuple(sp)))
    return out


def evaluate(case):
    fails = []
    n, fields, allowed = case['n'], case['fields'], case['allowed']
    sd, sigs, truth = build_items(case)
    # a short witness: the instruction asks for more signatures than were supplied (nothing, or foreign items, below them)
    short = int(case.get('m_extra', 0))
    below = [BELOW[i % len(BELOW)] for i in case.get('below', [])] if short else []
    m = len(sigs) + short
    keys = [bytes(SigningKey(sd[i]).verify_key) for i in range(n)]
    want, may_raise = predicate(truth)
    if short:
        want, may_raise = 'not-true', True
    info = {'want': want, 'm': m, 'n': n, 'short': short}
    verdicts = set()
    for kp, sp in orders(case, n, len(sigs)):
        ks = [keys[i] for i in kp]
        ss = [sigs[i] for i in sp]
        got = run_bare(ks, ss, allowed, m, n, fields, below=below)
        true = got[0] == 'ok' and got[1][-1:] == [b'\xff']
        verdicts.add(true)
        if want == 'true' and not true:
            fails.append(('multisig/rejects-valid-quorum', 'n=%d m=%d order %r %r -> %r' % (n, m, kp, sp, got)))
            break
        if want == 'not-true':
            if true:
                kinds = sorted({t[0] for t in truth}) + (['short-witness'] if short else [])
                fails.append(('multisig/true-without-m-distinct-valid-signers/%s' % '+'.join(kinds),
                              'n=%d m=%d items %r order %r %r' % (n, m, [t[:2] for t in truth], kp, sp)))
                break
            if got[0] != 'ok' and not may_raise:
                fails.append(('multisig/error-without-malformed-item', '%r' % (got,)))
                break
            if got[0] == 'ok' and got[1] != [b'\x00'] and not short:
                fails.append(('multisig/stack-shape', '%r' % (got,)))
                break
    if len(verdicts) > 1 and not fails:
        fails.append(('multisig/verdict-depends-on-order', 'n=%d m=%d' % (n, m)))
    # _VERIFY form, identity order
    gotv = run_bare(keys, sigs, allowed, m, n, fields, verify=True, below=below)
    if want == 'true' and gotv != ('ok', [b'\xff']):
        fails.append(('multisig/VERIFY-form-raises-for-valid-quorum', '%r' % (gotv,)))
    if want == 'not-true' and gotv[0] == 'ok':
        fails.append(('multisig/VERIFY-form-no-error-for-invalid', '%r' % (gotv,)))
    # the same accepted items again under a lock that no longer permits a flag one of them carries: not true (a verdict
    # must not be remembered across instructions with different permitted flags)
    used = 0
    for t in truth:
        used |= (t[4] or 0) if len(t) > 4 and isinstance(t[4], int) else 0
    if want == 'true' and not short and used:
        bit = used & -used
        got2 = run_bare(keys, sigs, allowed & ~bit & 0xff, m, n, fields)
        info['requalified'] = True
        if got2[0] == 'ok' and got2[1][-1:] == [b'\xff']:
            fails.append(('multisig/true-although-a-carried-flag-is-not-permitted-any-more', 'flag bit %02x removed from allowed %02x' % (bit, allowed)))
    # m greater than the number of supplied signatures is not generated; quorum through the builder
    if case.get('builder') and all(t[0] in ('valid', 'outsider', 'flagvar', 'dup', 'nonperm') for t in truth) and m <= n:
        try:
            lock = T.make_multisig_lock(keys, m, '%02x' % allowed)
            wit = b''.join(push(x) for x in below)
            for t, it in zip(truth, case['items']):
                signer = t[1] if t[1] is not None else n + (it[1] % 2)
                wit += bytes(T.make_single_sig_witness(sd[signer], fields, '%02x' % t[4]))
            got = F.run_auth_scripts([wit, bytes(lock)], dict(fields))
            # duplicates: the builder witness of the same signer and flag is byte-identical to a duplicate
            if got != (want == 'true'):
                fails.append(('multisig-builder/%s' % ('authorises-without-quorum' if got else 'rejects-valid-quorum'),
                              'n=%d m=%d items %r' % (n, m, [t[:2] for t in truth])))
        except BaseException as e:  # noqa
            if isinstance(e, (KeyboardInterrupt, SystemExit)):
                raise
            fails.append(('multisig-builder/raises-%s' % type(e).__name__, str(e)[:100]))
    # reference re-verification of a positive verdict (sampled)
    if want == 'true' and case.get('refcheck'):
        for t, s in zip(truth, sigs):
            if not E.verify(keys[t[1]], msg_of(fields, t[4]), s[:64]):
                raise AssertionError('harness: reference rejects an honest signature')
    return fails, info


def check_case(case):
    if case.get('check') != 'multisig':
        raise ValueError('check')
    if not 1 <= case['n'] <= 5 or len(case['items']) > 6:
        raise ValueError('domain')
    for it in case['items']:
        if it[0] not in ('valid', 'outsider', 'dup', 'flagvar', 'nonperm', 'bitflip', 'wronglen'):
            raise ValueError('item kind')
    return evaluate(case)[0]


@st.composite
def cases(draw):
    n = draw(st.integers(1, 5))
    m = draw(st.one_of(st.integers(0, n), st.integers(0, n), st.just(n), st.just(n + 1)))
    allowed = draw(st.sampled_from([0, 0, 1, 3, 0x81, 0xff]))
    fields = {'sigfield%d' % i: draw(st.binary(min_size=1, max_size=6)) for i in range(1, 9) if draw(st.booleans())}
    fields = gen_dict_order(draw, fields)
    mode = draw(st.sampled_from(['honest', 'honest', 'mixed', 'mixed', 'dupes']))
    items = []
    signers = draw(st.permutations(list(range(n))))
    for j in range(m):
        if mode == 'honest':
            kind = 'valid'
        elif mode == 'dupes':
            kind = draw(st.sampled_from(['valid', 'dup', 'flagvar', 'valid']))
        else:
            kind = draw(st.sampled_from(['valid', 'valid', 'valid', 'outsider', 'dup', 'flagvar', 'nonperm', 'bitflip', 'wronglen']))
        if kind == 'valid':
            items.append(['valid', signers[j % n] if mode != 'mixed' else draw(st.integers(0, n - 1)), draw(st.integers(0, 255))])
        elif kind == 'dup':
            items.append(['dup', draw(st.integers(0, 5))])
        elif kind == 'flagvar':
            items.append(['flagvar', draw(st.integers(0, n - 1)), draw(st.integers(0, 255))])
        else:
            items.append([kind, draw(st.integers(0, n - 1)), draw(st.integers(0, 255)), draw(st.integers(0, 511))])
    m_extra, below = 0, []
    if draw(st.integers(0, 3)) == 0:
        m_extra = draw(st.integers(1, 2))
        if m_extra > len(items):
            pass
        cut = draw(st.integers(0, len(items)))
        items = items[:cut]                       # possibly no signature at all
        below = draw(st.lists(st.integers(0, 4), max_size=2))
    return {'check': 'multisig', 'n': n, 'items': items, 'allowed': allowed, 'fields': fields, 'm_extra': m_extra, 'below': below,
            'tag': draw(st.binary(min_size=1, max_size=2)), 'order_seed': draw(st.integers(0, 2 ** 16)),
            'builder': draw(st.booleans()), 'refcheck': draw(st.integers(0, 9)) == 0}


def task_main(ctx):
    def one(c):
        fails, info = evaluate(c)
        kinds = sorted({it[0] for it in c['items']})
        nt = any(k != 'valid' for k in kinds) or info['m'] == info['n'] or info['n'] > 1
        ctx.case((c['n'], c['items'], c['allowed'], sorted(c['fields']), c['order_seed']), nt)
        ctx.count('expect:' + info['want'])
        ctx.count('m=%d' % info['m'])
        if info.get('requalified'):
            ctx.count('accepted quorum re-run with a carried flag no longer permitted')
        if info['short']:
            ctx.count('short-witness:%s' % ('nothing-below' if not c['below'] else 'items-below'))
        for k in kinds:
            ctx.count('item:' + k)
        for s, d in fails:
            ctx.fail('multisig', s, c, d)
        if nt and info['want'] == 'not-true':
            ctx.sample({k: v for k, v in c.items() if k not in ('check',)})
    hyp.drive(cases(), one, ctx.n(16000, 300000), ctx.seed)


TASKS = {'main': (task_main, 16, 16)}


def guards(tier, c, evaluations, nnt):
    msgs = []
    if c.get('expect:true', 0) < 0.15 * evaluations or c.get('expect:not-true', 0) < 0.15 * evaluations:
        msgs.append('verdict classes unbalanced: %r' % {k: v for k, v in c.items() if k.startswith('expect')})
    return msgs
