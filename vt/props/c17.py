"""C17 - adapter signatures are verifiable encryptions of a valid signature."""
from __future__ import annotations
import hashlib
from .. import env, hyp, optable as O, ed25519_ref as E
from .c02 import push, msg_of
from hypothesis import strategies as st
from ..gen import dict_order as gen_dict_order

F, T = env.F, env.T
C = O.CODES
L = E.L
ID = 'C17'
LEVEL = 'exploration'
RULE = ('Hypothesis cases: signer seed, message 0-512 bytes, tweak material (random 32 bytes, clamped and unclamped, '
        'scalars 1, L-1, L+1, 2^255-1, t | 2^255, and 0 / L for the error path); for each case every identity of the '
        'statement is recomputed with the pure-Python reference (check passes; decrypt = (R+T, sa+t); decrypted '
        'signature verifies under RFC 8032; t = s - sa; adapter itself and a decryption with another scalar are not '
        'signatures) and ALL single-bit corruptions of sa, R, T and X (256 each) and of the message (all bits, at most '
        '256 drawn positions for long messages) must be rejected by the adapter check. Both MAKE_ADAPTER ops; builder '
        'level: make_adapter_witness + make_adapter_locks_pub/_prv + make_adapter_decrypt / decrypt_adapter and the '
        'deprecated single-script locks. non-trivial = unclamped or edge scalar, message >= 256 bytes or empty, or any '
        'corruption (every case enumerates > 1000 corruptions); distinct by the case parameters.'
        ' Task sessions: two adapters, 2-5 check / decrypt (own or other scalar) operations in ONE run, each result compared with the reference in isolation; the deprecated single-script locks with every flag value.'
        ' sa + k L (k = 1..7) is presented to the adapter check.')
ASSUMPTIONS = ['vt/ed25519_ref.py (RFC 8032 strict verification: canonical s < L) decides "valid signature"',
               '"another scalar" means clamp(t\') mod L != t mod L (DECRYPT clears bit 255 and works mod L)']


def P(*items):
    return b''.join(push(i) for i in items)


def op(name):
    return bytes([C[name]])


def top(code, cache=None):
    try:
        _, s, _ = F.run_script(code, dict(cache or {}))
        return ('ok', s.list())
    except env.SEE as e:
        return ('see', str(e)[:60])
    except BaseException as e:  # noqa
        if isinstance(e, (KeyboardInterrupt, SystemExit)):
            raise
        return ('err', type(e).__name__ + ':' + str(e)[:40])


def tweak_bytes(kind, raw):
    if kind == 'rand':
        return raw
    if kind == 'clamped':
        return E.clamp(raw, True)
    if kind == 'one':
        return (1).to_bytes(32, 'little')
    if kind == 'Lm1':
        return (L - 1).to_bytes(32, 'little')
    if kind == 'Lp1':
        return (L + 1).to_bytes(32, 'little')
    if kind == 'max':
        return b'\xff' * 32
    if kind == 'top-bit':
        return raw[:31] + bytes([raw[31] | 0x80])
    if kind == 'zero':
        return bytes(32)
    if kind == 'L':
        return L.to_bytes(32, 'little')
    raise ValueError(kind)


def check_op_level(seed, m, kind, raw, maker, msg_bits):
    """maker in PUBLIC | PRIVATE"""
    fails = []
    X = E.pub(seed)
    tb = tweak_bytes(kind, raw)
    t_int = E.scalar_int(E.clamp(tb)) % L
    zero = t_int == 0
    Tref = None if zero else E.enc(E.mul(t_int, E.G))
    tag = maker
    if maker == 'PUBLIC':
        if zero:
            return fails          # no point T exists for t = 0; the error path is checked at DECRYPT below
        r = top(P(seed, m, Tref) + op('OP_MAKE_ADAPTER_SIG_PUBLIC')) if m else top(P(seed) + bytes([C['OP_PUSH1'], 0]) + P(Tref) + op('OP_MAKE_ADAPTER_SIG_PUBLIC'))
        if r[0] != 'ok' or len(r[1]) != 2:
            return [('adapter/PUBLIC/make-fails', '%r' % (r,))]
        R, sa = r[1]
        Tpt = Tref
    else:
        pm = P(m) if m else bytes([C['OP_PUSH1'], 0])
        r = top(pm + P(tb, seed) + op('OP_MAKE_ADAPTER_SIG_PRIVATE'))
        if zero:
            if r[0] == 'ok':
                fails.append(('adapter/PRIVATE/zero-tweak-gives-a-result', '%r' % (r,)))
            return fails
        if r[0] != 'ok' or len(r[1]) != 3:
            return [('adapter/PRIVATE/make-fails', '%r' % (r,))]
        Tpt, R, sa = r[1]
        if Tpt != Tref:
            fails.append(('adapter/PRIVATE/tweak-point-is-not-t*G', '%s vs %s' % (Tpt.hex(), Tref.hex())))
            return fails
    pm = P(m) if m else bytes([C['OP_PUSH1'], 0])

    def check(sa_, R_, m_, T_, X_):
        pmm = P(m_) if m_ else bytes([C['OP_PUSH1'], 0])
        return top(P(sa_, R_) + pmm + P(T_, X_) + op('OP_CHECK_ADAPTER_SIG'))
    got = check(sa, R, m, Tpt, X)
    if got != ('ok', [b'\xff']):
        fails.append(('adapter/%s/own-adapter-fails-the-check' % tag, '%r' % (got,)))
    # decryption with t
    d = top(P(sa, R, tb) + op('OP_DECRYPT_ADAPTER_SIG'))
    if d[0] != 'ok' or len(d[1]) != 2:
        fails.append(('adapter/%s/decrypt-fails' % tag, '%r' % (d,)))
        return fails
    RT, s = d[1]
    Rp = E.dec(R)
    if Rp is None or RT != E.enc(E.add(Rp, E.dec(Tpt))):
        fails.append(('adapter/%s/decrypted-nonce-is-not-R+T' % tag, ''))
    if E.scalar_int(s) != (E.scalar_int(sa) + t_int) % L:
        fails.append(('adapter/%s/decrypted-scalar-is-not-sa+t' % tag, ''))
    if not E.verify(X, m, RT + s):
        fails.append(('adapter/%s/decrypted-signature-invalid' % tag, 'kind %s' % kind))
    else:
        cs = top(P(RT + s, X) + bytes([C['OP_CHECK_SIG'], 0]), {'sigfield1': m})
        if cs != ('ok', [b'\xff']):
            fails.append(('adapter/%s/CHECK_SIG-rejects-decrypted-signature' % tag, '%r' % (cs,)))
    if (E.scalar_int(s) - E.scalar_int(sa)) % L != t_int:
        fails.append(('adapter/%s/t-not-recoverable' % tag, ''))
    # the adapter itself is not a signature
    if E.verify(X, m, R + sa):
        fails.append(('adapter/%s/adapter-is-itself-a-valid-signature' % tag, ''))
    cs = top(P(R + sa, X) + bytes([C['OP_CHECK_SIG'], 0]), {'sigfield1': m})
    if cs == ('ok', [b'\xff']):
        fails.append(('adapter/%s/CHECK_SIG-accepts-undecrypted-adapter' % tag, ''))
    # decryption with another scalar
    t2b = hashlib.sha256(raw + b'other').digest()
    if E.scalar_int(E.clamp(t2b)) % L not in (t_int, 0):
        d2 = top(P(sa, R, t2b) + op('OP_DECRYPT_ADAPTER_SIG'))
        if d2[0] == 'ok' and len(d2[1]) == 2:
            if E.verify(X, m, d2[1][0] + d2[1][1]):
                fails.append(('adapter/%s/wrong-scalar-decrypts-to-valid-signature' % tag, ''))
            cs = top(P(d2[1][0] + d2[1][1], X) + bytes([C['OP_CHECK_SIG'], 0]), {'sigfield1': m})
            if cs == ('ok', [b'\xff']):
                fails.append(('adapter/%s/CHECK_SIG-accepts-wrong-scalar-decryption' % tag, ''))
    # every single-bit corruption must be rejected by the adapter check (only meaningful if the honest one passes)
    if got == ('ok', [b'\xff']):
        for name, val, bits in (('sa', sa, range(256)), ('R', R, range(256)), ('T', Tpt, range(256)), ('X', X, range(256)),
                                ('m', m, msg_bits)):
            for bit in bits:
                if bit >= 8 * len(val):
                    continue
                x = bytearray(val)
                x[bit // 8] ^= 1 << (bit % 8)
                args = {'sa': sa, 'R': R, 'm': m, 'T': Tpt, 'X': X}
                args[name] = bytes(x)
                g = check(args['sa'], args['R'], args['m'], args['T'], args['X'])
                if g == ('ok', [b'\xff']):
                    region = 'bit255' if (name in ('sa',) and bit == 255) else ('top-bits' if bit >= 252 and name == 'sa' else 'any')
                    fails.append(('adapter/%s/corrupted-%s-passes-the-check/%s' % (tag, name, region), 'bit %d' % bit))
                    break
        # arithmetic aliases of sa: sa + k L names the same group element but is another 32-byte string (an altered sa)
        for k in range(1, 8):
            alias = E.scalar_int(sa) + k * L
            if alias >= 2 ** 256:
                break
            g = check(alias.to_bytes(32, 'little'), R, m, Tpt, X)
            if g == ('ok', [b'\xff']):
                fails.append(('adapter/%s/corrupted-sa-passes-the-check/sa-plus-a-multiple-of-the-group-order' % tag, 'sa + %d L' % k))
                break
    return fails


def check_zero_tweak(seed, m):
    """t == 0 (mod L): a clean error, never a verdict."""
    fails = []
    X = E.pub(seed)
    t1 = tweak_bytes('rand', hashlib.sha256(seed).digest())
    Tp = E.enc(E.mul(E.scalar_int(E.clamp(t1)) % L, E.G))
    r = top(P(seed, m or b'x', Tp) + op('OP_MAKE_ADAPTER_SIG_PUBLIC'))
    if r[0] != 'ok':
        return [('adapter/PUBLIC/make-fails', '%r' % (r,))]
    R, sa = r[1]
    for kind in ('zero', 'L'):
        d = top(P(sa, R, tweak_bytes(kind, b'')) + op('OP_DECRYPT_ADAPTER_SIG'))
        if d[0] == 'ok':
            fails.append(('adapter/zero-tweak-decrypts', '%s -> %r' % (kind, d)))
    return fails


def check_builders(seed, fields, flags, raw, variant):
    """End-to-end through the builders."""
    fails = []
    fl = '%02x' % flags
    pk = E.pub(seed)
    tweak = raw
    t = E.clamp(tweak)
    if E.scalar_int(t) % L == 0:
        return fails
    Tp = E.enc(E.mul(E.scalar_int(t) % L, E.G))
    m = msg_of(fields, flags)
    try:
        wit = T.make_adapter_witness(seed, Tp, fields, fl)
        if variant == 'pub':
            s1, s3 = T.make_adapter_locks_pub(pk, Tp, fl)
            s2 = T.make_adapter_decrypt(tweak)
        else:
            s1, s2, s3 = T.make_adapter_locks_prv(pk, tweak, fl)
        if not F.run_auth_scripts([bytes(wit), bytes(s1)], dict(fields)):
            fails.append(('builders/adapter-witness-rejected-by-adapter-lock', 'flags %s' % fl))
        sig = T.decrypt_adapter(wit, tweak)
        if not E.verify(pk, m, sig):
            fails.append(('builders/decrypt_adapter-result-invalid', 'flags %s' % fl))
        _, st2, _ = F.run_script(bytes(wit) + bytes(s2), dict(fields))
        two = st2.list()
        if len(two) != 2 or two[0] + two[1] != sig:
            fails.append(('builders/decrypt-script-differs-from-decrypt_adapter', ''))
        sigf = sig + (bytes([flags]) if flags else b'')
        if not F.run_auth_scripts([P(sigf), bytes(s3)], dict(fields)):
            fails.append(('builders/decrypted-signature-rejected-by-final-lock', 'flags %s' % fl))
        # undecrypted adapter / wrong scalar
        w = wit.bytes
        _, stw, _ = F.run_script(w)
        R_, sa_ = stw.list()[1], stw.list()[0]
        und = R_ + sa_ + (bytes([flags]) if flags else b'')
        if F.run_auth_scripts([P(und), bytes(s3)], dict(fields)):
            fails.append(('builders/undecrypted-adapter-opens-final-lock', ''))
        other = hashlib.sha256(raw + b'o').digest()
        if E.scalar_int(E.clamp(other)) % L not in (E.scalar_int(t) % L, 0):
            bad = T.decrypt_adapter(wit, other) + (bytes([flags]) if flags else b'')
            if F.run_auth_scripts([P(bad), bytes(s3)], dict(fields)):
                fails.append(('builders/wrong-scalar-decryption-opens-final-lock', ''))
        # foreign witness (other key) against script 1
        seed2 = hashlib.sha256(seed).digest()
        wit2 = T.make_adapter_witness(seed2, Tp, fields, fl)
        if F.run_auth_scripts([bytes(wit2), bytes(s1)], dict(fields)):
            fails.append(('builders/foreign-adapter-witness-accepted', ''))
        # deprecated single-script locks
        if True:
            for name, lk in (('make_adapter_lock_pub', T.make_adapter_lock_pub(pk, Tp, fl)),
                             ('make_adapter_lock_prv', T.make_adapter_lock_prv(pk, tweak, fl))):
                if not F.run_auth_scripts([P(t) + bytes(wit), bytes(lk)], dict(fields)):
                    fails.append(('builders/%s-rejects-own-witness' % name, ''))
                if F.run_auth_scripts([P(E.clamp(other)) + bytes(wit), bytes(lk)], dict(fields)):
                    fails.append(('builders/%s-accepts-wrong-scalar' % name, ''))
    except BaseException as e:  # noqa
        if isinstance(e, (KeyboardInterrupt, SystemExit)):
            raise
        fails.append(('builders/raises-%s' % type(e).__name__, str(e)[:100]))
    return fails


def check_session(case):
    """Several adapters handled in ONE run (one cache): every check / decryption gives what it gives in isolation,
    whatever was checked or decrypted before it."""
    fails = []
    ad = {}
    for name in ('A', 'B'):
        seed, m, raw = case['seed' + name], case['m' + name], case['raw' + name]
        t_int = E.scalar_int(E.clamp(raw)) % L
        if t_int == 0 or not m:
            raise ValueError('degenerate')
        Tp = E.enc(E.mul(t_int, E.G))
        r = top(P(seed, m, Tp) + op('OP_MAKE_ADAPTER_SIG_PUBLIC'))
        if r[0] != 'ok' or len(r[1]) != 2:
            return [('adapter/PUBLIC/make-fails', '%r' % (r,))]
        ad[name] = dict(X=E.pub(seed), m=m, raw=raw, t=t_int, T=Tp, R=r[1][0], sa=r[1][1])
    code, want = b'', []
    for st_ in case['steps']:
        a = ad[st_[1]]
        if st_[0] == 'check':
            code += P(a['sa'], a['R'], a['m'], a['T'], a['X']) + op('OP_CHECK_ADAPTER_SIG')
            want.append(b'\xff')
        elif st_[0] == 'decrypt':
            raw = a['raw'] if st_[2] == 'own' else hashlib.sha256(a['raw'] + b'other').digest()
            t_int = E.scalar_int(E.clamp(raw)) % L
            if t_int == 0:
                raise ValueError('degenerate')
            code += P(a['sa'], a['R'], raw) + op('OP_DECRYPT_ADAPTER_SIG')
            want.append(E.enc(E.add(E.dec(a['R']), E.mul(t_int, E.G))))
            want.append(((E.scalar_int(a['sa']) + t_int) % L).to_bytes(32, 'little'))
        else:
            raise ValueError('step')
    got = top(code)
    if got != ('ok', want):
        first = next((i for i, (x, y) in enumerate(zip(got[1] if got[0] == 'ok' else [], want)) if x != y), None)
        fails.append(('adapter/session/result-depends-on-earlier-adapter-operations',
                      'steps %r: first differing result item %r (%s)' % (case['steps'], first, got[0])))
    return fails


@st.composite
def session_case(draw):
    steps = draw(st.lists(st.one_of(st.tuples(st.just('check'), st.sampled_from('AB')),
                                    st.tuples(st.just('decrypt'), st.sampled_from('AB'), st.sampled_from(['own', 'own', 'other']))),
                          min_size=2, max_size=5))
    b32 = st.binary(min_size=32, max_size=32)
    same_signer = draw(st.booleans())
    sa = draw(b32)
    return {'check': 'session', 'seedA': sa, 'seedB': sa if same_signer else draw(b32), 'mA': draw(st.binary(min_size=1, max_size=20)),
            'mB': draw(st.binary(min_size=1, max_size=20)), 'rawA': draw(b32), 'rawB': draw(b32), 'steps': [list(x) for x in steps]}


def task_sessions(ctx):
    def one(c):
        try:
            fails = check_session(c)
        except ValueError:
            return
        kinds = [x[0] for x in c['steps']]
        ctx.case((c['seedA'], c['seedB'], c['mA'], c['mB'], c['rawA'], c['rawB'], c['steps']), len({x[1] for x in c['steps']}) == 2)
        ctx.count('session:%s' % ('check-then-decrypt' if 'check' in kinds and 'decrypt' in kinds else '+'.join(sorted(set(kinds)))))
        for s, d in fails:
            ctx.fail('session', s, c, d)
        if len(c['steps']) == 3:
            ctx.sample({k: v for k, v in c.items() if k != 'check'})
    hyp.drive(session_case(), one, ctx.n(1500, 60000), ctx.seed + 2)


def check_case(case):
    k = case['check']
    if k == 'session':
        for n in ('seedA', 'seedB', 'rawA', 'rawB'):
            if len(case[n]) != 32:
                raise ValueError('shape')
        if not 1 <= len(case['steps']) <= 8:
            raise ValueError('steps')
        return check_session(case)
    if k == 'op':
        if len(case['seed']) != 32 or len(case['raw']) != 32 or case['maker'] not in ('PUBLIC', 'PRIVATE') or len(case['m']) > 600:
            raise ValueError('shape')
        return check_op_level(case['seed'], case['m'], case['kind'], case['raw'], case['maker'], case.get('msg_bits', list(range(64))))
    if k == 'zero':
        return check_zero_tweak(case['seed'], case['m'])
    if k == 'builders':
        if len(case['seed']) != 32 or len(case['raw']) != 32 or not case['fields'] or case['variant'] not in ('pub', 'prv'):
            raise ValueError('shape')
        return check_builders(case['seed'], case['fields'], case['flags'] & 0xff, case['raw'], case['variant'])
    raise ValueError(k)


KINDS = ['rand', 'rand', 'clamped', 'one', 'Lm1', 'Lp1', 'max', 'top-bit']


@st.composite
def op_case(draw):
    m = draw(st.one_of(st.binary(min_size=0, max_size=40), st.binary(min_size=250, max_size=260),
                       st.binary(min_size=500, max_size=512), st.just(b'')))
    nb = 8 * len(m)
    bits = list(range(nb)) if nb <= 256 else sorted(set(draw(st.lists(st.integers(0, nb - 1), min_size=200, max_size=256))))
    return {'check': 'op', 'seed': draw(st.binary(min_size=32, max_size=32)), 'm': m, 'kind': draw(st.sampled_from(KINDS)),
            'raw': draw(st.binary(min_size=32, max_size=32)), 'maker': draw(st.sampled_from(['PUBLIC', 'PUBLIC', 'PUBLIC', 'PRIVATE'])),
            'msg_bits': bits}


@st.composite
def builder_case(draw):
    fields = {'sigfield%d' % i: draw(st.binary(min_size=1, max_size=12)) for i in range(1, 9) if draw(st.integers(0, 2)) == 0}
    fields = gen_dict_order(draw, fields)
    if not fields:
        fields = {'sigfield1': b'm'}
    return {'check': 'builders', 'seed': draw(st.binary(min_size=32, max_size=32)), 'fields': fields,
            'flags': draw(st.sampled_from([0, 0, 0, 1, 2, 0x80, 0x0f])), 'raw': draw(st.binary(min_size=32, max_size=32)),
            'variant': draw(st.sampled_from(['pub', 'prv']))}


def task_ops(ctx):
    def one(c):
        fails = check_op_level(c['seed'], c['m'], c['kind'], c['raw'], c['maker'], c['msg_bits'])
        ctx.case((c['seed'], c['m'], c['kind'], c['raw'], c['maker']), True)
        ctx.count('maker:' + c['maker'])
        ctx.count('tweak:' + c['kind'])
        ctx.count('corruptions-enumerated', 1024 + len(c['msg_bits']))
        for s, d in fails:
            ctx.fail('op', s, c, d)
        if len(c['m']) < 40:
            ctx.sample({k: v for k, v in c.items() if k not in ('check', 'msg_bits')})
    hyp.drive(op_case(), one, ctx.n(1200, 40000), ctx.seed)
    if ctx.shard == 0:
        for i in range(4):
            sd = hashlib.sha256(b'z%d' % i).digest()
            for s, d in check_zero_tweak(sd, b'msg%d' % i):
                ctx.fail('zero', s, {'check': 'zero', 'seed': sd, 'm': b'msg%d' % i}, d)
            ctx.case(('zero', i), True)


def task_builders(ctx):
    def one(c):
        fails = check_builders(c['seed'], c['fields'], c['flags'], c['raw'], c['variant'])
        ctx.case((c['seed'], c['fields'], c['flags'], c['raw'], c['variant']), True)
        ctx.count('builders:' + c['variant'])
        ctx.count('flags:%02x' % c['flags'])
        for s, d in fails:
            ctx.fail('builders', s, c, d)
        ctx.sample({k: v for k, v in c.items() if k != 'check'})
    hyp.drive(builder_case(), one, ctx.n(700, 30000), ctx.seed + 1)


TASKS = {'ops': (task_ops, 12, 16), 'builders': (task_builders, 4, 16), 'sessions': (task_sessions, 4, 16)}
