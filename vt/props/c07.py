"""C07 - stack, item-size, call-depth, loop and tape limits hold at every step."""
from __future__ import annotations
import tracemalloc
from .. import env, hyp, optable as O, refasm as R, render, monitors as M
from ..util import headroom
from hypothesis import strategies as st

F, Cl = env.F, env.C
C = O.CODES
ID = 'C07'
LEVEL = 'exploration'
RULE = ('Hypothesis-generated resource-hungry programs (pushes, COPY 255, DUP/CONCAT in loops, MULT of large ints, '
        'SHAKE256 255, recursive CALL / EVAL, nested IF / TRY / LOOP to depth 40 (400 thorough), RANDOM with sizes up to '
        '2^70 and negative, operands truncated at every offset, byte soup) x limit triples (max_items, max_item_size, '
        'callstack_limit) from 1 upward, plus a fixed deep-nesting family; executed with monitors on every deque '
        'mutation, every Tape.read / pointer assignment, every run_tape activation and CALL/EVAL chain, and with '
        'tracemalloc in the memory task. non-trivial = a limit was actually hit (rejected put / read / call / loop '
        'iteration) or the stack reached max_items - 1; distinct = digest of (script, limits).'
        ' Deep families taproot-nest / merkleval-nest / mixed-nest (limit-1 .. limit+2 nested evaluations) and copy-scale (up to 5101 items under max_items 1023 .. 70000); the monitored storage keeps the bound chosen by the Stack under test; the plain run leaves the stack the monitored run left.')
ASSUMPTIONS = ['monitors are harness-side subclasses bound by rebinding functions.Tape / Stack / run_tape / OP_CALL / OP_EVAL',
               'memory bound: tracemalloc peak <= 8 MiB + 8*(max_items*max_item_size) + 4*len(script)*(nesting+1)',
               '1000 frames of recursion headroom, as an embedder with the default CPython limit has']

INTERP = (MemoryError, RecursionError, SystemError)


class CStack(M.MonStack):
    """Checks that a put which would exceed a limit ends in ScriptExecutionError."""

    def put(self, item):
        m = M.current()
        over = None
        if m is not None and isinstance(item, bytes):
            if len(item) > self.max_item_size:
                over = 'limit:item-size'
            elif len(self.deque) >= self.max_items:
                over = 'limit:stack-full'
        if over is None:
            return Cl.Stack.put(self, item)
        m.event(over)
        try:
            Cl.Stack.put(self, item)
        except env.SEE:
            raise
        except M.MonitorAbort:
            raise
        except BaseException as e:  # noqa
            m.violate('limit-hit-ends-in-%s-not-ScriptExecutionError' % type(e).__name__, over)
        m.violate('limit-not-enforced', over)


class CTape(M.VMTape):
    def read(self, size, move_pointer=True):
        m = M.current()
        if m is not None and isinstance(size, int) and size >= 0 and self.pointer + size > len(self.data):
            m.guard()
            m.event('limit:read-past-end')
            try:
                Cl.Tape.read(self, size, move_pointer)
            except env.SEE:
                raise
            except BaseException as e:  # noqa
                m.violate('limit-hit-ends-in-%s-not-ScriptExecutionError' % type(e).__name__, 'read past end')
            m.violate('limit-not-enforced', 'read past end of tape')
        return M.VMTape.read(self, size, move_pointer)


def run_monitored(script, limits, trace_memory=False, cache=None):
    """-> dict(outcome, exc, violations, events, hw, peak, nesting)"""
    mi, ms, cl = limits
    mon = M.VMMonitor()
    rnd = env.pin_random(b'c07')
    env.pin_clock(1_700_000_000)
    res = {}
    try:
        with M.install_vm(mon), headroom(1000):
            F.Tape = env.P.Tape = env.T.Tape = CTape
            F.Stack = CStack
            # call-limit enforcement points
            for name in ('OP_CALL', 'OP_EVAL'):
                inner = getattr(F, name)

                def w(tape, stack, cache_, _fn=inner, _name=name):
                    blocked = tape.callstack_count >= tape.callstack_limit and not (
                        _name == 'OP_EVAL' and 'disallow_OP_EVAL' in tape.flags)
                    if not blocked:
                        return _fn(tape, stack, cache_)
                    mon.event('limit:call')
                    try:
                        _fn(tape, stack, cache_)
                    except env.SEE:
                        raise
                    except M.MonitorAbort:
                        raise
                    except BaseException as e:  # noqa
                        mon.violate('limit-hit-ends-in-%s-not-ScriptExecutionError' % type(e).__name__, 'call limit')
                    mon.violate('limit-not-enforced', 'call at callstack_count >= limit')
                setattr(F, name, w)
                code = F.opcodes_inverse[name][0]
                F.opcodes[code] = (name, w)
                F.opcodes_inverse[name] = (code, w)
            tape = CTape(script, callstack_limit=cl)
            stack = CStack(max_items=mi, max_item_size=ms)
            c = {'timestamp': 1_700_000_000, 'sigfield1': b'abc'}
            if cache:
                c.update(cache)
            if trace_memory:
                tracemalloc.start()
                base = tracemalloc.get_traced_memory()[0]
            try:
                try:
                    F.run_tape(tape, stack, c)
                    res['outcome'], res['exc'] = 'ok', None
                except env.SEE as e:
                    res['outcome'], res['exc'] = 'see', str(e)[:60]
                    if 'OP_LOOP limit exceeded' in str(e):
                        mon.event('limit:loop')
                except M.MonitorAbort:
                    res['outcome'], res['exc'] = 'monitor', None
                except INTERP as e:
                    res['outcome'], res['exc'] = 'interp', type(e).__name__
                except BaseException as e:  # noqa
                    if isinstance(e, (KeyboardInterrupt, SystemExit)):
                        raise
                    res['outcome'], res['exc'] = 'error', type(e).__name__
            finally:
                if trace_memory:
                    res['peak'] = tracemalloc.get_traced_memory()[1] - base
                    tracemalloc.stop()
            res['hw'] = stack.deque.hw
            res['final_len'] = len(stack.deque)
            res['final'] = list(stack.deque)
    finally:
        env.unpin_clock()
        env.unpin_random()
    res['violations'] = list(mon.violations)
    res['events'] = dict(mon.events)
    res['nesting'] = mon.max_nesting
    res['chain'] = mon.max_chain
    res['random_requests'] = list(rnd.calls)
    return res


def evaluate(script, limits, trace_memory=False):
    mi, ms, cl = limits
    r = run_monitored(script, limits, trace_memory)
    fails = []
    for kind, det in r['violations']:
        fails.append(('limit/' + kind, '%s limits=%r script=%s' % (det, limits, script[:40].hex())))
    if r['outcome'] == 'interp':
        fails.append(('interpreter-failure/%s' % r['exc'], 'limits=%r nesting=%d script=%s..(%dB)' % (
            limits, r['nesting'], script[:24].hex(), len(script))))
    for n in r['random_requests']:
        if n > ms:
            fails.append(('alloc/random-bytes-requested-beyond-item-limit', 'token_bytes(%d) with max_item_size %d' % (n, ms)))
            break
    if trace_memory and 'peak' in r:
        bound = (8 << 20) + 8 * mi * ms + 4 * len(script) * (r['nesting'] + 1)
        if r['peak'] > bound:
            fails.append(('alloc/peak-memory-over-bound', 'peak %d > bound %d limits=%r' % (r['peak'], bound, limits)))
    # the same input without monitors (other frame counts): no interpreter-level failure either
    if not r['violations'] and r['outcome'] != 'interp':
        try:
            with headroom(1000):
                env.pin_random(b'c07')
                env.pin_clock(1_700_000_000)
                try:
                    _, st_plain, _ = F.run_script(script, {'sigfield1': b'abc'}, stack_max_items=mi, stack_max_item_size=ms, callstack_limit=cl)
                finally:
                    env.unpin_random()
                    env.unpin_clock()
                # the plain Stack holds what the monitored one held (same pinned clock and randomness)
                if r['outcome'] == 'ok' and r['nesting'] < 100 and st_plain.list() != r['final']:
                    fails.append(('limit/plain-run-stack-differs-from-monitored-run', '%d items vs %d monitored; limits=%r script=%s' % (
                        len(st_plain), len(r['final']), limits, script[:24].hex())))
        except INTERP as e:
            fails.append(('interpreter-failure/%s' % type(e).__name__, 'unmonitored run; limits=%r script=%s..(%dB)' % (
                limits, script[:24].hex(), len(script))))
        except BaseException as e:  # noqa
            if isinstance(e, (KeyboardInterrupt, SystemExit)):
                raise
    # authorization view of the same input (unmonitored): never raises, False when the run failed
    if not r['violations']:
        try:
            with headroom(1000):
                auth = F.run_auth_scripts([script], {}, stack_max_items=mi, stack_max_item_size=ms, callstack_limit=cl)
            # (frame budgets differ between the monitored and the plain run: deep nestings are not compared)
            if r['outcome'] in ('see', 'error', 'interp') and auth is not False and r['nesting'] < 100:
                fails.append(('auth/true-although-run-failed', '%r' % (r['outcome'],)))
        except BaseException as e:  # noqa
            if isinstance(e, (KeyboardInterrupt, SystemExit)):
                raise
            fails.append(('auth/run_auth_scripts-raises-%s' % type(e).__name__, str(e)[:80]))
    return fails, r


def check_case(case):
    if case.get('check') != 'run':
        raise ValueError('check')
    lim = tuple(case['limits'])
    if len(lim) != 3 or min(lim) < 1:
        raise ValueError('limits')
    if 'prog' in case:
        script = R.encode(render.lower(case['prog']))
    elif 'family' in case:
        script = deep_script(case['family'], case['depth'])
    else:
        script = case['script']
    return evaluate(script, lim, bool(case.get('mem')))[0]


# ---------------------------------------------------------------- generators
def _ib(n):
    ln = 1
    while True:
        try:
            return n.to_bytes(ln, 'big', signed=True)
        except OverflowError:
            ln += 1


def P_(v):
    return ['push', v]


def I(name, *ops):
    return ['i', C[name]] + list(ops)


SIZES = [1, 2, 31, 32, 33, 64, 255, 256, 1024, 1025]
COUNTS = [0, 1, 2, 15, 127, 128, 255]
RANDOM_SIZES = [0, 1, 32, 1024, 1025, 2 ** 16, 2 ** 20, 2 ** 26, 2 ** 27, 2 ** 70, -1, -2 ** 31]
TRUNC = [bytes([3, 0x20]) + b'ab', bytes([4, 0xff, 0xff]), bytes([43, 0, 16, 1]), bytes([41, 0, 0]), bytes([9, 5]) + b'ab',
         bytes([60]) + bytes(10), bytes([44, 0, 1, 1, 0]), bytes([61, 0]), bytes([69]), bytes([4, 0]), bytes([3])]


def rec_through(h):
    """bodies of `def h` that re-enter themselves through every construct (CALL and EVAL)."""
    call = [I('OP_CALL', h)]
    ev = [P_(bytes([C['OP_CALL'], h])), I('OP_EVAL')]
    out = []
    for again in (call, ev):
        out += [
            [I('OP_TRUE'), ['if', again]],
            [I('OP_TRUE'), ['ife', again, []]],
            [I('OP_FALSE'), ['ife', [], again]],
            [['try', again, []]],
            [['try', [I('OP_FALSE'), I('OP_VERIFY')], again]],
            [I('OP_TRUE'), ['loop', [I('OP_POP0')] + again + [I('OP_FALSE')]]],
            [['try', [I('OP_TRUE'), ['if', [['try', [I('OP_FALSE'), I('OP_VERIFY')], again]]]], []]],
        ]
    return out


@st.composite
def hungry(draw, max_nest=40, depth=0):
    out = []
    for _ in range(draw(st.integers(1, 5))):
        k = draw(st.sampled_from(['push', 'copy', 'dupcat', 'loopgrow', 'rec_call', 'rec_eval', 'nest', 'mult', 'shake',
                                  'random', 'reverse', 'pops', 'depthloop', 'concat', 'swap', 'cacheio', 'split',
                                  'evalpush', 'intops']))
        if k == 'push':
            n = draw(st.sampled_from(SIZES))
            out.append(P_(bytes([draw(st.integers(0, 255))]) * n))
        elif k == 'copy':
            out += [I('OP_TRUE'), I('OP_COPY', draw(st.sampled_from(COUNTS)))]
        elif k == 'dupcat':
            out.append(P_(b'ab'))
            out += [I('OP_DUP'), I('OP_CONCAT')] * draw(st.sampled_from([1, 3, 12]))
        elif k == 'loopgrow':
            body = draw(st.sampled_from([[I('OP_DUP'), I('OP_CONCAT')], [I('OP_DUP')], [I('OP_TRUE')], [P_(b'x' * 40)],
                                         [I('OP_DUP'), I('OP_MULT_INTS', 2)], [I('OP_DEPTH')],
                                         [I('OP_DUP'), I('OP_SHA256'), I('OP_CONCAT')]]))
            out += [P_(b'\x01\x01'), ['loop', body]]
        elif k == 'rec_call':
            h = draw(st.integers(0, 2))
            bodies = [[I('OP_TRUE'), I('OP_CALL', h)], [I('OP_CALL', h)], [I('OP_CALL', h), I('OP_CALL', h)]] + rec_through(h)
            out += [['def', h, draw(st.sampled_from(bodies))], I('OP_CALL', h)]
        elif k == 'rec_eval':
            out += [P_(bytes([C['OP_DUP'], C['OP_EVAL']])), I('OP_DUP'), I('OP_EVAL')]
        elif k == 'nest' and depth < 2:
            inner = draw(hungry(max_nest, depth + 1))
            # only the outermost nest may be max_nest deep: the inner program then stays shallow enough to be encoded inside
            # the strategy without coming near the recursion limit
            n = draw(st.sampled_from([1, 3, 10, max_nest] if depth == 0 else [1, 3, 10]))
            # the size of the nest is tracked arithmetically (each wrapper adds at most 10 bytes): encoding a 400-level nest
            # inside the strategy needs ~1200 Python frames, and whether that fits depends on how deep Hypothesis itself
            # happens to be - generation must not depend on that (FlakyStrategyDefinition in the thorough tier)
            try:
                size = len(R.encode(render.lower(inner)))
            except R.NotEncodable:
                size = 70000
            for _ in range(n):
                if size + 10 > 60000:
                    break
                size += 10
                c = draw(st.sampled_from(['if', 'try', 'loop', 'ife', 'except']))
                if c == 'if':
                    inner = [I('OP_TRUE'), ['if', inner]]
                elif c == 'try':
                    inner = [['try', inner, []]]
                elif c == 'except':
                    inner = [['try', [I('OP_FALSE'), I('OP_VERIFY')], inner]]
                elif c == 'ife':
                    inner = [I('OP_FALSE'), ['ife', [], inner]]
                else:
                    inner = [I('OP_TRUE'), ['loop', [I('OP_POP0')] + inner + [I('OP_FALSE')]]]
            out += inner
        elif k == 'mult':
            out += [P_(b'\x7f' * draw(st.sampled_from([8, 64, 512, 1024]))), I('OP_COPY', draw(st.sampled_from([1, 3, 20, 254]))),
                    I('OP_MULT_INTS', draw(st.sampled_from([2, 4, 21, 255])))]
        elif k == 'shake':
            out += [I('OP_TRUE'), I('OP_SHAKE256', draw(st.sampled_from(COUNTS)))]
        elif k == 'random':
            out += [P_(_ib(draw(st.sampled_from(RANDOM_SIZES)))), I('OP_RANDOM')]
        elif k == 'reverse':
            out.append(I('OP_REVERSE', draw(st.sampled_from(COUNTS))))
        elif k == 'pops':
            out.append(I('OP_POP1', draw(st.sampled_from(COUNTS))))
        elif k == 'depthloop':
            out += [I('OP_TRUE'), ['loop', [I('OP_DEPTH'), I('OP_DEPTH')]]]
        elif k == 'concat':
            out += [P_(b'a' * draw(st.sampled_from(SIZES))), P_(b'b' * draw(st.sampled_from(SIZES))), I('OP_CONCAT')]
        elif k == 'swap':
            out.append(I('OP_SWAP', draw(st.sampled_from(COUNTS)), draw(st.sampled_from(COUNTS))))
        elif k == 'cacheio':
            out += [I('OP_WRITE_CACHE', b'k', draw(st.sampled_from([0, 1, 3, 255]))), I('OP_READ_CACHE', b'k'),
                    I('OP_READ_CACHE', b'k'), I('OP_READ_CACHE', b'k')]
        elif k == 'split':
            out += [P_(b'abcdef'), P_(_ib(draw(st.sampled_from([0, 1, 5, 6, 7, -1, 2 ** 40])))), I('OP_SPLIT')]
        elif k == 'evalpush':
            inner = draw(hungry(max_nest, 2))
            try:
                b = R.encode(render.lower(inner))
            except R.NotEncodable:
                b = b''
            if 0 < len(b) < 60000:
                out += [P_(b), I('OP_EVAL')]
        elif k == 'intops':
            out += [P_(_ib(draw(st.sampled_from([0, 1, -1, 2 ** 63, 2 ** 8000])))), I('OP_DUP'),
                    I(draw(st.sampled_from(['OP_ADD_INTS', 'OP_SUBTRACT_INTS', 'OP_MULT_INTS'])), 2), I('OP_INT_TO_FLOAT')]
    return out


LIMS_MI = [1, 2, 3, 5, 16, 255, 1024]
LIMS_MS = [1, 2, 4, 31, 32, 33, 64, 1024]
LIMS_CL = [1, 2, 3, 8, 128]
limits_st = st.tuples(st.one_of(st.sampled_from(LIMS_MI), st.integers(1, 40)),
                      st.one_of(st.sampled_from(LIMS_MS), st.integers(1, 2048)),
                      st.one_of(st.sampled_from(LIMS_CL), st.integers(1, 40)))


@st.composite
def hungry_case(draw, max_nest):
    prog = draw(hungry(max_nest))
    lim = draw(limits_st)
    mode = draw(st.integers(0, 9))
    return prog, lim, mode, draw(st.integers(0, 2 ** 16)), draw(st.sampled_from(TRUNC))


def deep_script(family, depth):
    """Fixed deep-nesting family (milliseconds each)."""
    L2 = lambda b: len(b).to_bytes(2, 'big')  # noqa: E731
    t, f = bytes([C['OP_TRUE']]), bytes([C['OP_FALSE']])
    if family in ('if', 'try', 'loop', 'ife'):
        inner = t
        for _ in range(depth):
            if family == 'if':
                nxt = t + bytes([C['OP_IF']]) + L2(inner) + inner
            elif family == 'try':
                nxt = bytes([C['OP_TRY_EXCEPT']]) + L2(inner) + inner + b'\x00\x00'
            elif family == 'ife':
                nxt = f + bytes([C['OP_IF_ELSE']]) + b'\x00\x00' + L2(inner) + inner
            else:
                body = bytes([C['OP_POP0']]) + inner + f
                nxt = t + bytes([C['OP_LOOP']]) + L2(body) + body + bytes([C['OP_POP0']])
            if len(nxt) > 65000:
                break
            inner = nxt
        return inner
    if family == 'call':
        body = bytes([C['OP_CALL'], 0])
        return bytes([C['OP_DEF'], 0]) + L2(body) + body + bytes([C['OP_CALL'], 0])
    if family == 'eval':
        s = bytes([C['OP_DUP'], C['OP_EVAL']])
        return bytes([C['OP_PUSH1'], len(s)]) + s + s
    if family in ('taproot-nest', 'merkleval-nest', 'mixed-nest'):
        # evaluations entered through the TAPROOT script path / MERKLEVAL count against the call-stack limit like EVAL
        from . import c09
        inner = t
        kinds = {'taproot-nest': ['TAPROOT'], 'merkleval-nest': ['MERKLEVAL'], 'mixed-nest': ['EVAL', 'TAPROOT', 'DEFCALL', 'MERKLEVAL']}[family]
        for i in range(depth):
            inner = c09.wrap(kinds[i % len(kinds)], inner)
        return inner
    if family == 'copy-scale':
        # 1 + 255 * depth items: beyond the default 1024, for embedders that configure a larger stack
        return bytes([C['OP_PUSH0'], 1]) + bytes([C['OP_COPY'], 255]) * depth
    if family == 'rec-through':
        return R.encode(render.lower([['def', 0, rec_through(0)[depth]], I('OP_CALL', 0)]))
    raise ValueError(family)


def _one(ctx, script, lim, mem=False, case=None):
    fails, r = evaluate(script, lim, mem)
    hit = [k for k in r['events'] if k.startswith('limit:')]
    nt = bool(hit) or r.get('hw', 0) >= lim[0] - 1
    ctx.case((script, lim), nt)
    ctx.count('outcome:' + r['outcome'])
    for k in hit:
        ctx.count(k)
    if r['nesting'] >= 20:
        ctx.count('nesting>=20')
    case = case or {'check': 'run', 'script': script, 'limits': list(lim)}
    if mem:
        case['mem'] = True
    for s, d in fails:
        ctx.fail('run', s, case, d)
    if nt and len(script) < 80:
        ctx.sample({'script': script, 'limits': list(lim), 'outcome': r['outcome'], 'error': r['exc'], 'limits_hit': hit})


def task_hungry(ctx):
    max_nest = 400 if ctx.thorough() else 40

    def one(t):
        prog, lim, mode, cut, trunc = t
        try:
            with headroom(6000):
                script = R.encode(render.lower(prog))
        except R.NotEncodable:
            return
        case = {'check': 'run', 'prog': prog, 'limits': list(lim)}
        if mode == 0 and script:
            script = script[:cut % (len(script) + 1)]
            case = None
        elif mode == 1:
            script = script + trunc
            case = None
        _one(ctx, script, lim, False, case)
    hyp.drive(hungry_case(max_nest), one, ctx.n(40000, 600000), ctx.seed)
    # byte soup under small limits
    soup = st.tuples(st.binary(min_size=1, max_size=200), limits_st)
    hyp.drive(soup, lambda t: _one(ctx, t[0], t[1]), ctx.n(30000, 400000), ctx.seed + 1)


def task_memory(ctx):
    def one(t):
        prog, lim, mode, cut, trunc = t
        try:
            script = R.encode(render.lower(prog))
        except R.NotEncodable:
            return
        _one(ctx, script, lim, True, {'check': 'run', 'prog': prog, 'limits': list(lim)})
    hyp.drive(hungry_case(40), one, ctx.n(6000, 80000), ctx.seed + 2)
    # the attacker numbers, directly
    if ctx.shard == 0:
        for n in RANDOM_SIZES + [2 ** 24, 2 ** 25, 1023, 1024, 1025]:
            for lim in ((1024, 1024, 128), (2, 32, 2), (16, 1, 1)):
                prog = [P_(_ib(n)), I('OP_RANDOM')]
                _one(ctx, R.encode(render.lower(prog)), lim, True, {'check': 'run', 'prog': prog, 'limits': list(lim)})


def task_deep(ctx):
    fams = [(f, d) for f in ('if', 'try', 'loop', 'ife') for d in (100, 330, 1000, 1200)]
    items = []
    for f, d in fams:
        for lim in ((1024, 1024, 128), (3, 64, 2)):
            items.append((f, d, lim))
    for f in ('call', 'eval'):
        for cl in (1, 2, 128, 500, 2000):
            items.append((f, 0, (1024, 1024, cl)))
    for vi in range(len(rec_through(0))):
        for cl in (1, 3, 7):
            items.append(('rec-through', vi, (1024, 1024, cl)))
    for f in ('taproot-nest', 'merkleval-nest', 'mixed-nest'):
        for cl in (1, 2, 3):
            for d in (cl - 1, cl, cl + 1, cl + 2):
                if d >= 1:
                    items.append((f, d, (1024, 1024, cl)))
    for mi in (1023, 1024, 1025, 1100, 2000, 5000, 70000):
        for d in (4, 5, 8, 20):
            items.append(('copy-scale', d, (mi, 1024, 128)))
    for i, (f, d, lim) in enumerate(items):
        if i % ctx.nshards != ctx.shard:
            continue
        script = deep_script(f, d)
        _one(ctx, script, lim, False, {'check': 'run', 'family': f, 'depth': d, 'limits': list(lim)})
        ctx.count('deep:' + f)


TASKS = {
    'hungry': (task_hungry, 14, 16),
    'memory': (task_memory, 8, 16),
    'deep': (task_deep, 4, 4),
}


def guards(tier, c, evaluations, nnt):
    msgs = []
    tot = sum(v for k, v in c.items() if k.startswith('outcome:'))
    for k in ('limit:item-size', 'limit:stack-full', 'limit:read-past-end', 'limit:call', 'limit:loop'):
        if c.get(k, 0) < 20:
            msgs.append('limit class %s reached only %d times' % (k, c.get(k, 0)))
    if c.get('outcome:ok', 0) < 0.03 * tot:
        msgs.append('fewer than 3%% of programs end without error (%d of %d)' % (c.get('outcome:ok', 0), tot))
    return msgs
