"""C19 - extension registries behave as sets; runs do not leak state into later runs."""
from __future__ import annotations
import copy
import itertools
from typing import Protocol, runtime_checkable
import hypothesis
from hypothesis import settings, strategies as st, HealthCheck, Phase
from hypothesis.stateful import RuleBasedStateMachine, rule, run_state_machine_as_test
from .. import env, optable as O
from ..recorder import push

F, P, T = env.F, env.P, env.T
C = O.CODES
ID = 'C19'
LEVEL = 'exploration'
RULE = ('histories over {add / remove / reset plugin (3 plugins x 2 scopes, also through the signature-extension wrappers), '
        'add / remove contract (2), add / remove contract interface (2), add alias (2), run (probe script through '
        'run_script and run_auth_scripts with caller-supplied cache / contracts / plugins dicts), compile (6 fixed '
        'sources with macros, variables, comptime and aliases through compile_script, Script.from_src and the exported '
        'assemble / parse_comptime without the optional macros argument)}: complete enumeration of all words up to length '
        '4 (6 in thorough) over the per-registry alphabets, plus Hypothesis rule-based machines of up to 40 steps over '
        'the whole alphabet. Model: one set per registry. After every step: registry contents == model; a run invokes '
        'exactly the active plugins (once per triggering instruction) and reaches exactly the active contracts; '
        'add_contract accepts an object <=> it satisfies an active interface; compile results are a function of (source, '
        'active aliases) only; caller dicts are deep-equal to their pre-call copies. non-trivial = a remove or reset '
        'after >= 2 adds, or a compile after another compile; distinct by the operation word.'
        ' Plugins: plain function, bound method fetched afresh per call, a run-once plugin that removes itself, all consuming the template arguments like ops; run variants: run_script / run_auth_scripts, caller overrides, probe as second script, caller-supplied timestamp; aliases of an ordinary op and of OP_IF; sources with the same macro / variable names and different bodies.'
        ' The machine has a falsy contract object, alias sources right after an explicit OP_PUSH1 / OP_PUSH2, and at every run step writer / reader runs with the cache argument omitted or empty (nothing leaks, the empty dict stays empty).')
ASSUMPTIONS = ['registries are restored in place (and leaked default-argument state cleared) between histories',
               'expected bytes of the fixed sources are cross-checked against the reference assembler once per worker']

SCOPES = ['signature_extensions', 'check_template']
CALLS = []


def _consume_template_args(tape, stack):
    """a check_template plugin "takes the same arguments as an op": the template on top, the sigfield beneath - and consumes them, as
    the repository's own example plugins do (the template call hands over an empty tape)"""
    if tape.data == b'':
        stack.get()
        stack.get()


def _mk(i):
    def plug(tape, stack, cache):
        CALLS.append(('p', i))
        _consume_template_args(tape, stack)
        return True
    plug.__name__ = 'plug%d' % i
    return plug


class _Ext:
    """plugin 2 is a bound method: every access to `_EXT.on` is a new, equal object - registries that behave as sets compare by
    equality, not identity"""

    def on(self, tape, stack, cache):
        CALLS.append(('p', 2))
        _consume_template_args(tape, stack)
        return True


_EXT = _Ext()
PLUGS = [_mk(0), _mk(1), _EXT.on]


def _plugin(i):
    return _EXT.on if i == 2 else PLUGS[i]


def _mk_oneshot(scope, idx):
    def oneshot(tape, stack, cache):
        # a run-once hook: takes itself out of the registry when it is invoked
        CALLS.append(('p', idx))
        F.remove_plugin(scope, oneshot)
        _consume_template_args(tape, stack)
        return True
    oneshot.__name__ = 'oneshot_' + scope
    return oneshot


ONESHOT = {sc: _mk_oneshot(sc, 3 + k) for k, sc in enumerate(SCOPES)}
PLUGS += [ONESHOT[sc] for sc in SCOPES]


@runtime_checkable
class HasFoo(Protocol):
    def foo(self) -> int:
        ...


class Con0:
    """satisfies HasFoo and CanBeInvoked"""

    def foo(self):
        return 1

    def abi(self, args):
        CALLS.append(('c', 0))
        return None


class Con1:
    """satisfies CanBeInvoked only; an empty container (falsy): presence in a registry is a matter of the id, not of truth"""

    def __len__(self):
        return 0

    def abi(self, args):
        CALLS.append(('c', 1))
        return None


CONS = [Con0(), Con1()]
CIDS = [b'\x01' * 4, b'\x02' * 4]
IFACES = [HasFoo, F.CanBeInvoked]
ALIASES = [('ZZA', 'OP_TRUE'), ('ZZB', 'OP_FALSE'), ('ZZW', 'OP_IF')]      # an ordinary op twice, and a block construct


def _blk(b):
    return len(b).to_bytes(2, 'big') + b


PROBE = (bytes([C['OP_GET_MESSAGE'], 0, C['OP_POP0']]) + push(b'abc') + bytes([C['OP_CHECK_TEMPLATE'], 1, C['OP_POP0']]) +
         b''.join(bytes([C['OP_TRY_EXCEPT']]) + _blk(push(b'\x00') + push(cid) + bytes([C['OP_INVOKE']])) + b'\x00\x00' for cid in CIDS) +
         bytes([C['OP_TRUE']]))

LEAK_W = push(b'\x01') + bytes([C['OP_WRITE_CACHE'], 4]) + b'leak' + b'\x01' + bytes([C['OP_TRUE']])
LEAK_R = bytes([C['OP_READ_CACHE_SIZE'], 4]) + b'leak'

SOURCES = [
    ('plain', 'push d1 push d2 add_ints d2', bytes([2, 1, 2, 2, C['OP_ADD_INTS'], 2])),
    ('macro-def-and-use', '!= m [ a ] { push a } !m [ x05 ]', bytes([2, 5])),
    ('macro-use-only', '!m [ x06 ]', None),                     # must always be rejected
    ('alias', 'ZZA zzb', 'alias'),
    ('variables', '@= v [ x01 ] @v', bytes([2, 1, C['OP_WRITE_CACHE'], 1]) + b'v' + bytes([1, C['OP_READ_CACHE'], 1]) + b'v'),
    ('comptime', 'push ~ { true }', bytes([2, C['OP_TRUE']])),
]
NBASE = len(SOURCES)
# same construct names with different bodies / arguments: compiling one must not colour how a later one compiles
_BODIES = [('push a', lambda a: bytes([2, a])), ('push a push a', lambda a: bytes([2, a, 2, a])),
           ('push x01 push a not', lambda a: bytes([2, 1, 2, a, C['OP_NOT']]))]
for _mn in ('m', 'n'):
    for _bi, (_bs, _bf) in enumerate(_BODIES):
        for _arg in (5, 6):
            SOURCES.append(('macro2-%s-%d-%d' % (_mn, _bi, _arg), '!= %s [ a ] { %s } !%s [ x%02x ]' % (_mn, _bs, _mn, _arg), _bf(_arg)))
SOURCES.append(('macro2-two-params', '!= m [ a b ] { push b push a } !m [ x05 x06 ]', bytes([2, 6, 2, 5])))
SOURCES.append(('macro2-twice', '!= m [ a ] { push a } !m [ x05 ] !m [ x06 ]', bytes([2, 5, 2, 6])))
SOURCES.append(('variables2', '@= v [ x02 ] @v', bytes([2, 2, C['OP_WRITE_CACHE'], 1]) + b'v' + bytes([1, C['OP_READ_CACHE'], 1]) + b'v'))
SOURCES.append(('comptime2', 'push ~ { false }', bytes([2, C['OP_FALSE']])))
SOURCES.append(('alias-block', 'true zzw { dup }', 'alias-block'))
SOURCES.append(('comptime3', 'push ~ { true true }', bytes([3, 2, C['OP_TRUE'], C['OP_TRUE']])))
SOURCES.append(('alias-after-push1', 'op_push1 x07 zza', 'alias-push1'))
SOURCES.append(('alias-after-push2', 'op_push2 x07 zza dup', 'alias-push2'))
ENTRY = ['compile_script', 'Script.from_src', 'assemble', 'parse_comptime+assemble']


def _reset_leaked_defaults():
    """harness-side: state that leaked through mutable default arguments must not carry from one history to the next"""
    for fn in (P.assemble, P.parse_comptime, P.define_macro, P.invoke_macro, P.parse_next, P.parse_if, P.parse_def):
        for d in (fn.__defaults__ or ()):
            if isinstance(d, dict):
                d.clear()


class Interp:
    def __init__(self):
        env.restore_registries(env.PRISTINE)
        _reset_leaked_defaults()
        self.plug = {s: [] for s in SCOPES}
        self.con = {}
        self.ifaces = {'CanCheckTransfer', 'CanBeInvoked'}
        self.aliases = {}
        self.fails = []
        self.adds = 0
        self.nontrivial = False
        self.compiles = 0

    def fail(self, sig, det=''):
        self.fails.append((sig, det))

    # ---- operations
    def step(self, s):
        op = s[0]
        try:
            getattr(self, 'op_' + op)(*s[1:])
        except AssertionError:
            raise
        self.invariant(s)

    def op_addp(self, si, i, wrapper=False):
        scope = SCOPES[si % 2]
        if wrapper and scope == 'signature_extensions':
            F.add_signature_extension(_plugin(i % 3))
        else:
            F.add_plugin(scope, _plugin(i % 3))
        if PLUGS[i % 3] not in self.plug[scope]:
            self.plug[scope].append(PLUGS[i % 3])
        self.adds += 1

    def op_addone(self, si):
        scope = SCOPES[si % 2]
        F.add_plugin(scope, ONESHOT[scope])
        if ONESHOT[scope] not in self.plug[scope]:
            self.plug[scope].append(ONESHOT[scope])
        self.adds += 1

    def op_remp(self, si, i, wrapper=False):
        scope = SCOPES[si % 2]
        if wrapper and scope == 'signature_extensions':
            F.remove_signature_extension(_plugin(i % 3))
        else:
            F.remove_plugin(scope, _plugin(i % 3))
        if PLUGS[i % 3] in self.plug[scope]:
            self.plug[scope].remove(PLUGS[i % 3])
        if self.adds >= 2:
            self.nontrivial = True

    def op_resetp(self, si, wrapper=False):
        scope = SCOPES[si % 2]
        if wrapper and scope == 'signature_extensions':
            F.reset_signature_extensions()
        else:
            F.reset_plugins(scope)
        self.plug[scope] = []
        if self.adds >= 2:
            self.nontrivial = True

    def op_addc(self, i):
        i %= 2
        obj = CONS[i]
        ok_expected = (i == 0 and ('HasFoo' in self.ifaces or 'CanBeInvoked' in self.ifaces)) or (i == 1 and 'CanBeInvoked' in self.ifaces)
        try:
            F.add_contract(CIDS[i], obj)
            accepted = True
        except env.SEE:
            accepted = False
        if accepted != ok_expected:
            self.fail('registry/add_contract-%s' % ('accepts-object-matching-no-active-interface' if accepted else
                                                    'rejects-object-matching-an-active-interface'),
                      'contract %d active interfaces %r' % (i, sorted(self.ifaces)))
        if ok_expected:
            self.con[CIDS[i]] = obj
        self.adds += 1

    def op_remc(self, i):
        i %= 2
        F.remove_contract(CIDS[i])
        self.con.pop(CIDS[i], None)
        if self.adds >= 2:
            self.nontrivial = True

    def op_addi(self, j):
        F.add_contract_interface(IFACES[j % 2])
        self.ifaces.add(IFACES[j % 2].__name__)

    def op_remi(self, j):
        F.remove_contract_interface(IFACES[j % 2])
        self.ifaces.discard(IFACES[j % 2].__name__)

    def op_alias(self, k):
        a, opn = ALIASES[k % len(ALIASES)]
        try:
            F.add_alias(a, opn)
            if a in self.aliases:
                self.fail('registry/add_alias-accepts-alias-already-in-use', a)
        except ValueError:
            if a not in self.aliases:
                self.fail('registry/add_alias-rejects-free-alias', a)
        self.aliases[a] = opn

    def op_run(self, via=0):
        del CALLS[:]
        cache = {'sigfield1': b'abc', 'extra': [1, b'x']}
        if via & 4:
            cache['timestamp'] = 1_700_000_000        # a caller that supplies the execution time itself
        contracts = {b'\x09' * 4: CONS[1]} if via % 2 else {}
        plugins = {'other_scope': [PLUGS[2]]} if via % 2 else {}
        before = (copy.deepcopy(cache), list(contracts), {k: list(v) for k, v in plugins.items()})    # callables are not copied
        try:
            if via & 2 == 0:
                F.run_script(PROBE, cache, contracts, plugins=plugins)
            else:
                # via & 4: the probe is the second script of the list
                scripts = [bytes([C['OP_TRUE'], C['OP_POP0']]), PROBE] if via & 4 else [PROBE]
                ok = F.run_auth_scripts(scripts, cache, contracts, plugins)
                if ok is not True:
                    self.fail('run/probe-script-does-not-authorise', repr(ok))
        except BaseException as e:  # noqa
            if isinstance(e, (KeyboardInterrupt, SystemExit)):
                raise
            self.fail('run/probe-raises-%s' % type(e).__name__, str(e)[:80])
            return
        after = (cache, list(contracts), {k: list(v) for k, v in plugins.items()})
        if after != before:
            self.fail('run/caller-dictionary-modified', '%r -> %r' % (before, after))
        # runs without a cache argument, or with an empty one, start from an empty cache and leave the caller's dict alone
        for how in ('omitted', 'empty'):
            d = {}
            args = () if how == 'omitted' else (d,)
            try:
                if via & 2 == 0:
                    F.run_script(LEAK_W, *args)
                    st2 = F.run_script(LEAK_R, *args)[1].list()
                else:
                    F.run_auth_scripts([LEAK_W], *args)
                    st2 = [b'\x00'] if F.run_auth_scripts([LEAK_R + bytes([C['OP_NOT']])], *args) else ['seen']
            except BaseException as e:  # noqa
                if isinstance(e, (KeyboardInterrupt, SystemExit)):
                    raise
                self.fail('run/leak-probe-raises-%s' % type(e).__name__, str(e)[:80])
                return
            if st2 != [b'\x00']:
                self.fail('run/cache-of-an-earlier-run-visible-to-a-later-one', 'cache argument %s: %r' % (how, st2))
            if d:
                self.fail('run/caller-dictionary-modified', 'empty cache dict -> %r' % (d,))
        # the probe reaches the signature plugins twice and the template plugins once; a run-once hook is active for the first
        # invocation of its scope only and inactive afterwards
        sig_active = self.plug['signature_extensions']
        exp_p = sorted([PLUGS.index(p) for p in sig_active] + [PLUGS.index(p) for p in sig_active if p not in ONESHOT.values()] +
                       [PLUGS.index(p) for p in self.plug['check_template']])
        for sc in SCOPES:
            if ONESHOT[sc] in self.plug[sc]:
                self.plug[sc].remove(ONESHOT[sc])
                self.nontrivial = True
        got_p = sorted(c[1] for c in CALLS if c[0] == 'p')
        if got_p != exp_p:
            kind = 'inactive-plugin-invoked' if len(got_p) > len(exp_p) or set(got_p) - set(exp_p) else 'active-plugin-not-invoked'
            self.fail('run/%s' % kind, 'invoked %r expected %r' % (got_p, exp_p))
        got_c = sorted(c[1] for c in CALLS if c[0] == 'c')
        exp_c = sorted(CIDS.index(k) for k in self.con)
        if got_c != exp_c:
            self.fail('run/%s' % ('removed-contract-still-reachable' if set(got_c) - set(exp_c) else 'active-contract-not-reachable'),
                      'reached %r expected %r' % (got_c, exp_c))

    def op_compile(self, si, ei):
        name, src, exp = SOURCES[si % len(SOURCES)]
        entry = ENTRY[ei % len(ENTRY)]
        if entry == 'parse_comptime+assemble' and name.startswith('macro'):
            # two separate calls do not share a macro table unless the caller passes one: not a documented way to compile macros
            entry = 'assemble'
        if exp == 'alias':
            exp = bytes([C['OP_TRUE'], C['OP_FALSE']]) if ('ZZA' in self.aliases and 'ZZB' in self.aliases) else None
        if exp == 'alias-push1':
            exp = bytes([C['OP_PUSH1'], 1, 7, C['OP_TRUE']]) if 'ZZA' in self.aliases else None
        if exp == 'alias-push2':
            exp = bytes([C['OP_PUSH2'], 0, 1, 7, C['OP_TRUE'], C['OP_DUP']]) if 'ZZA' in self.aliases else None
        if exp == 'alias-block':
            exp = bytes([C['OP_TRUE'], C['OP_IF'], 0, 1, C['OP_DUP']]) if 'ZZW' in self.aliases else None
        try:
            if entry == 'compile_script':
                got = P.compile_script(src)
            elif entry == 'Script.from_src':
                got = T.Script.from_src(src).bytes
            elif entry == 'assemble':
                got = P.assemble(P.get_symbols(src))
            else:
                got = P.assemble(P.parse_comptime(P.get_symbols(src)))
        except BaseException as e:  # noqa
            if isinstance(e, (KeyboardInterrupt, SystemExit)):
                raise
            got = None
        self.compiles += 1
        if self.compiles >= 2:
            self.nontrivial = True
        if got != exp:
            if exp is None:
                what = 'accepts-source-that-must-be-rejected'
            elif got is None:
                what = 'rejects-source-depending-on-history'
            else:
                what = 'different-bytes-depending-on-history'
            self.fail('compile/%s/%s' % (what, name), '%s via %s -> %r expected %r' % (src, entry, got, exp))

    # ---- invariant
    def invariant(self, s):
        for scope in SCOPES:
            got = list(F._plugins.get(scope, []))
            if len(got) != len(set(got)):
                self.fail('registry/plugin-registered-twice', '%s %r' % (scope, [p.__name__ for p in got]))
            if set(got) != set(self.plug[scope]):
                extra = set(got) - set(self.plug[scope])
                self.fail('registry/%s-after-%s' % ('removed-plugin-still-registered' if extra else 'active-plugin-missing', s[0]),
                          '%s: registry %r model %r' % (scope, sorted(p.__name__ for p in got), sorted(p.__name__ for p in self.plug[scope])))
        foreign = set(F._plugins) - set(SCOPES)
        if foreign:
            self.fail('registry/plugin-scope-leaked-into-the-registry', '%r' % (sorted(foreign),))
        if set(F._contracts) != set(self.con):
            self.fail('registry/contracts-differ-from-model-after-%s' % s[0], '%r vs %r' % (sorted(F._contracts), sorted(self.con)))
        if set(F._contract_interfaces) != self.ifaces:
            self.fail('registry/interfaces-differ-from-model-after-%s' % s[0], '%r vs %r' % (sorted(F._contract_interfaces), sorted(self.ifaces)))
        for a, opn in ALIASES:
            if (F.opcode_aliases.get(a) == opn) != (a in self.aliases):
                self.fail('registry/aliases-differ-from-model-after-%s' % s[0], a)


def run_history(steps):
    it = Interp()
    try:
        for s in steps:
            if it.fails:
                break
            it.step(list(s))
    finally:
        env.restore_registries(env.PRISTINE)
        _reset_leaked_defaults()
    return it


VALID_OPS = {'addp': 2, 'remp': 2, 'resetp': 1, 'addone': 1, 'addc': 1, 'remc': 1, 'addi': 1, 'remi': 1, 'alias': 1, 'run': 0, 'compile': 2}


def check_case(case):
    if case.get('check') != 'history':
        raise ValueError('check')
    steps = case['steps']
    if len(steps) > 60:
        raise ValueError('too long')
    for s in steps:
        if not isinstance(s, (list, tuple)) or not s or s[0] not in VALID_OPS or len(s) - 1 < VALID_OPS[s[0]] or \
                any(not isinstance(x, (int, bool)) for x in s[1:]):
            raise ValueError('step')
    return run_history(steps).fails


def _do(ctx, steps, sample=False):
    it = run_history(steps)
    ctx.case(steps, it.nontrivial)
    for s, d in it.fails:
        ctx.fail('history', s, {'check': 'history', 'steps': [list(x) for x in steps]}, d)
    if sample and it.nontrivial:
        ctx.sample({'steps': [list(x) for x in steps]})


def alphabets():
    A = {}
    for si in range(2):
        A['plugins:' + SCOPES[si]] = ([['addp', si, i] for i in range(3)] + [['remp', si, i] for i in range(3)] +
                                      [['resetp', si], ['run', si * 2], ['run', 4 + si * 2], ['addone', si]])
    A['contracts+interfaces'] = ([['addc', 0], ['addc', 1], ['remc', 0], ['remc', 1], ['addi', 0], ['remi', 0], ['addi', 1],
                                  ['remi', 1], ['run', 1], ['run', 6], ['run', 7]])
    A['compile+aliases'] = ([['compile', si, ei] for si in range(NBASE) for ei in (0, 2, 3)] + [['compile', 1, 1], ['alias', 0], ['alias', 1]])
    A['aliases-of-block-ops'] = [['alias', 2], ['alias', 0], ['compile', [n for n, _, _ in SOURCES].index('alias-block'), 0],
                                 ['compile', [n for n, _, _ in SOURCES].index('alias-block'), 1], ['compile', 3, 0],
                                 ['compile', [n for n, _, _ in SOURCES].index('alias-after-push1'), 0],
                                 ['compile', [n for n, _, _ in SOURCES].index('alias-after-push2'), 1]]
    A['compile-purity'] = [['compile', si, ei] for si in range(NBASE, len(SOURCES)) for ei in (0, 1)] + [['compile', 1, 0]]
    return A


def task_enumerate(ctx):
    A = alphabets()
    maxlen = {'plugins:' + SCOPES[0]: 5, 'plugins:' + SCOPES[1]: 5, 'contracts+interfaces': 5, 'compile+aliases': 3, 'compile-purity': 2, 'aliases-of-block-ops': 4}
    if ctx.thorough():
        maxlen = {'plugins:' + SCOPES[0]: 6, 'plugins:' + SCOPES[1]: 6, 'contracts+interfaces': 5, 'compile+aliases': 4, 'compile-purity': 3, 'aliases-of-block-ops': 5}
    idx = 0
    for name, alpha in A.items():
        n = 0
        for ln in range(1, maxlen[name] + 1):
            for word in itertools.product(alpha, repeat=ln):
                idx += 1
                if idx % ctx.nshards != ctx.shard:
                    continue
                _do(ctx, word, sample=(n % 5000 == 77))
                n += 1
        ctx.exhaustive['%s: all words up to length %d' % (name, maxlen[name])] = n


def make_machine(ctx):
    class Machine(RuleBasedStateMachine):
        def __init__(self):
            super().__init__()
            self.steps = []
            self.it = Interp()
            self.dead = False

        def _go(self, s):
            if self.dead:
                return
            self.steps.append(s)
            self.it.step(list(s))
            if self.it.fails:
                self.dead = True
                for sg, d in self.it.fails:
                    ctx.fail('history', sg, {'check': 'history', 'steps': [list(x) for x in self.steps]}, d)

        @rule(si=st.integers(0, 1), i=st.integers(0, 2), w=st.booleans())
        def addp(self, si, i, w):
            self._go(['addp', si, i, w])

        @rule(si=st.integers(0, 1), i=st.integers(0, 2), w=st.booleans())
        def remp(self, si, i, w):
            self._go(['remp', si, i, w])

        @rule(si=st.integers(0, 1))
        def addone(self, si):
            self._go(['addone', si])

        @rule(si=st.integers(0, 1), w=st.booleans())
        def resetp(self, si, w):
            self._go(['resetp', si, w])

        @rule(i=st.integers(0, 1))
        def addc(self, i):
            self._go(['addc', i])

        @rule(i=st.integers(0, 1))
        def remc(self, i):
            self._go(['remc', i])

        @rule(j=st.integers(0, 1))
        def addi(self, j):
            self._go(['addi', j])

        @rule(j=st.integers(0, 1))
        def remi(self, j):
            self._go(['remi', j])

        @rule(k=st.integers(0, 2))
        def alias(self, k):
            self._go(['alias', k])

        @rule(via=st.integers(0, 7))
        def run(self, via):
            self._go(['run', via])

        @rule(si=st.integers(0, len(SOURCES) - 1), ei=st.integers(0, len(ENTRY) - 1))
        def compile(self, si, ei):
            self._go(['compile', si, ei])

        def teardown(self):
            env.restore_registries(env.PRISTINE)
            _reset_leaked_defaults()
            ctx.case(self.steps, self.it.nontrivial)
            ctx.count('machine-steps', len(self.steps))
            if self.it.nontrivial and len(self.steps) <= 8:
                ctx.sample({'steps': self.steps})
    return Machine


def task_machines(ctx):
    M = hypothesis.seed(ctx.seed)(make_machine(ctx))
    run_state_machine_as_test(M, settings=settings(
        max_examples=ctx.n(1200, 40000), stateful_step_count=40, deadline=None, database=None, phases=[Phase.generate],
        suppress_health_check=list(HealthCheck), report_multiple_bugs=False, verbosity=hypothesis.Verbosity.quiet))


# (the expected bytes of the fixed sources are confirmed by the length-1 words of the enumeration: one compile from the pristine state)
TASKS = {'enumerate': (task_enumerate, 16, 16), 'machines': (task_machines, 8, 16)}
