"""C12 - decompiling always terminates and round-trips compiler output."""
from __future__ import annotations
import glob
import itertools
import os
from .. import env, hyp, gen, refasm as R, render, monitors as M, optable as O, builders
from ..util import headroom
from hypothesis import strategies as st
C = O.CODES

P = env.P
ID = 'C12'
LEVEL = 'exploration'
RULE = ('termination: every byte string up to a bound (complete enumeration, see exhaustive_subdomains), Hypothesis '
        'binary strings up to 70 KiB and structure-aware mutations of the corpus (repository vectors + builder '
        'outputs), run under a monitoring Tape that forbids negative reads and any backward pointer move; '
        'non-trivial = the decoder consumed at least one operand byte. round trip: bytes returned by '
        'compile_script for generated programs (canonical spelling), all builder outputs and repository vectors; '
        'oracle = recompiling the listing (joined by newline and by space) gives identical bytes AND the listing, '
        'read by a reference listing parser, equals the reference disassembly; non-trivial = an operand of >= 128 '
        'bytes or a nested block.  distinct = digest of the byte string.'
        ' One refused decompile precedes every round trip; nests of depth 4 .. 60 through every clause with the entries into the decompiler bounded by 4 per level.')
ASSUMPTIONS = ['termination is decided through the progress invariant (no negative read, pointer never decreases, '
               'every iteration reads >= 1 byte), not by waiting',
               'reference disassembler / listing reader in vt/refasm.py written from docs.md operand shapes']


class StrictTape(M.MonTape):
    def __setattr__(self, k, v):
        if k == 'pointer':
            m = M.current()
            if m is not None and 'data' in self.__dict__:
                old = self.__dict__.get('pointer', 0)
                if isinstance(v, int) and v < old:
                    object.__setattr__(self, k, v)
                    m.violate('pointer-moved-backwards', '%d -> %d' % (old, v))
        M.MonTape.__setattr__(self, k, v)


def _decompile_monitored(data):
    """-> (kind, value, monitor)  kind in 'ok' | 'raised' | 'violation'"""
    mon = M.Monitor()
    with M.install_tape(mon, StrictTape), headroom(1000):
        try:
            out = P.decompile_script(data)
            kind = 'ok'
        except M.MonitorAbort:
            kind, out = 'violation', None
        except RecursionError as e:
            kind, out = 'raised', e
        except Exception as e:  # noqa
            kind, out = 'raised', e
        except BaseException as e:  # ScriptExecutionError / SyntaxError derive from BaseException
            if isinstance(e, (env.SEE, env.TSyntaxError)):
                kind, out = 'raised', e
            else:
                raise
    if mon.violations:
        kind = 'violation'
    return kind, out, mon


def check_term(data):
    fails = []
    kind, out, mon = _decompile_monitored(data)
    if kind == 'violation':
        fails.append(('term/' + mon.violations[0][0], '%s on %s' % (mon.violations[0], data[:40].hex())))
    elif kind == 'ok':
        if not (isinstance(out, list) and all(isinstance(x, str) for x in out)):
            fails.append(('term/bad-return-type', repr(type(out))))
    return fails, kind, mon


def _try_compile(src):
    try:
        return 'ok', P.compile_script(src)
    except BaseException as e:  # noqa
        if isinstance(e, (KeyboardInterrupt, SystemExit, MemoryError)):
            raise
        return 'raised', e


def _mini_rt(b):
    """Round trip of one byte string; -> None | (what, detail)"""
    kind, lst, mon = _decompile_monitored(b)
    if kind == 'violation':
        return ('decompile-' + mon.violations[0][0], str(mon.violations[0]))
    if kind == 'raised':
        return ('decompile-raises-' + type(lst).__name__, str(lst)[:200])
    try:
        ref = R.decode(b)
    except R.DecodeError as e:
        return ('reference-cannot-decode', str(e))
    try:
        got = R.parse_listing(lst)
    except R.ListingError as e:
        return ('listing-unreadable', str(e))
    for sep in ('\n', ' '):
        k, b2 = _try_compile(sep.join(lst))
        if k == 'raised':
            return ('recompile-raises-' + type(b2).__name__, '%s | listing %r' % (str(b2)[:160], lst[:3]))
        if b2 != b:
            return ('bytes-differ', 'sep=%r %s -> %s' % (sep, b[:24].hex(), b2[:24].hex()))
    if got != ref:
        return ('listing-differs', 'listing %r' % (lst[:4],))
    return None


def _leaves(prog):
    for n in prog:
        if n[0] == 'i':
            yield n
        else:
            for x in n[1:]:
                if isinstance(x, list):
                    yield from _leaves(x)


def _culprit(b, what):
    try:
        prog = R.decode(b)
    except R.DecodeError:
        return 'undecodable'
    for n in _leaves(prog):
        r = _mini_rt(R.encode_node(n))
        if r is not None and r[0] == what:
            return O.name_of(n[1]) if n[1] < O.N_OPS else 'NOP'
    for n in prog:
        if n[0] != 'i':
            r = _mini_rt(R.encode_node(n))
            if r is not None and r[0] == what:
                return 'block:' + n[0]
    return 'composite'


def _def_directly_in_def(prog, inside=False):
    for n in prog:
        if n[0] == 'def':
            if inside or _def_directly_in_def(n[2], True):
                return True
        elif n[0] != 'i':
            for x in n[1:]:
                if isinstance(x, list) and _def_directly_in_def(x, False):
                    return True
    return False


_BAD_INPUTS = [b'\x03\x05\x01', bytes([C['OP_IF'], 0, 9, 1]), bytes([C['OP_TRY_EXCEPT'], 0, 2, 1]), bytes([C['OP_PUSH2'], 0xff]),
               bytes([C['OP_IF'], 0, 4, C['OP_IF'], 0, 9, 1])]
_HISTORY = [0]


def _refused_decompile():
    """History: one malformed input (refused with an error) is decompiled before every round trip; what an earlier call
    refused must not colour a later call."""
    _HISTORY[0] += 1
    try:
        P.decompile_script(_BAD_INPUTS[_HISTORY[0] % len(_BAD_INPUTS)])
    except BaseException as e:  # noqa
        if isinstance(e, (KeyboardInterrupt, SystemExit)):
            raise


def nest_bytes(kind, depth):
    L2 = lambda x: len(x).to_bytes(2, 'big')  # noqa: E731
    inner = bytes([C['OP_TRUE']])
    for _ in range(depth):
        if kind == 'except':
            inner = bytes([C['OP_TRY_EXCEPT']]) + L2(b'\x01') + b'\x01' + L2(inner) + inner
        elif kind == 'try':
            inner = bytes([C['OP_TRY_EXCEPT']]) + L2(inner) + inner + L2(b'\x01') + b'\x01'
        elif kind == 'if':
            inner = bytes([C['OP_IF']]) + L2(inner) + inner
        elif kind == 'else':
            inner = bytes([C['OP_IF_ELSE']]) + L2(b'\x01') + b'\x01' + L2(inner) + inner
        elif kind == 'ifelse-if':
            inner = bytes([C['OP_IF_ELSE']]) + L2(inner) + inner + L2(b'\x01') + b'\x01'
        elif kind == 'loop':
            inner = bytes([C['OP_LOOP']]) + L2(inner) + inner
        else:
            raise ValueError(kind)
    return inner


class _TooMuchWork(BaseException):
    pass


def check_work(kind, depth):
    """Terminates, at scale: decompiling a nest of `depth` blocks enters the decompiler a number of times linear in the
    depth (measured: 2 per level), whichever clause carries the nesting."""
    b = nest_bytes(kind, depth)
    orig = P.decompile_script
    n = [0]

    def counting(*a, **k):
        n[0] += 1
        if n[0] > 60 * depth + 100:
            raise _TooMuchWork()
        return orig(*a, **k)
    P.decompile_script = counting
    try:
        try:
            counting(b)
        except _TooMuchWork:
            return [('rt/decompile-work-explodes-with-nesting@block:%s' % kind, 'more than %d entries for depth %d (%d bytes)' % (60 * depth + 100, depth, len(b)))]
        except BaseException as e:  # noqa
            if isinstance(e, (KeyboardInterrupt, SystemExit)):
                raise
            return [('rt/decompile-of-compilable-nest-raises-%s@block:%s' % (type(e).__name__, kind), 'depth %d' % depth)]
    finally:
        P.decompile_script = orig
    if n[0] > 4 * depth + 10:
        return [('rt/decompile-work-superlinear-in-nesting@block:%s' % kind, '%d entries for depth %d' % (n[0], depth))]
    return check_rt_bytes(b)


def check_rt_bytes(b):
    _refused_decompile()
    r = _mini_rt(b)
    if r is None:
        return []
    what, detail = r
    if what.startswith('recompile-raises'):
        try:
            if _def_directly_in_def(R.decode(b)):
                # D33 (open): only a macro expansion can put a definition directly inside a definition body
                return [('rt/def-directly-inside-def-cannot-be-recompiled', detail)]
        except R.DecodeError:
            pass
    return [('rt/%s@%s' % (what, _culprit(b, what)), detail)]


def _rt_nontrivial(b):
    try:
        prog = R.decode(b)
    except R.DecodeError:
        return False
    if R.max_depth(prog) >= 1:
        return True
    for n in _leaves(prog):
        for x in n[2:]:
            if isinstance(x, (bytes, bytearray)) and len(x) >= 128:
                return True
    return False


def check_case(case):
    chk = case.get('check')
    if chk == 'term':
        return check_term(case['data'])[0]
    if chk == 'rtb':
        return check_rt_bytes(case['data'])
    if chk == 'work':
        if case['kind'] not in ('except', 'try', 'if', 'else', 'ifelse-if', 'loop') or not 1 <= case['depth'] <= 200:
            raise ValueError('domain')
        return check_work(case['kind'], case['depth'])
    if chk == 'rtsrc':
        k, b = _try_compile(case['src'])
        if k != 'ok':
            return []
        return check_rt_bytes(b)
    if chk == 'rt':
        tree = case['prog']
        src = render.render(tree, render.Chooser(case.get('sp', [0])))
        k, b = _try_compile(src)
        if k != 'ok':
            return []
        return check_rt_bytes(b)
    raise ValueError('unknown check %r' % (chk,))


# ------------------------------------------------------------------ tasks
BOUNDARY3 = [0, 1, 2, 3, 4, 0x7f, 0x80, 0x81, 0xfd, 0xfe, 0xff, 41, 43, 44, 61, 69]


def _run_term(ctx, data, sample=False):
    fails, kind, mon = check_term(data)
    nt = mon.events.get('operand_bytes', 0) > 0
    ctx.case(data, nt)
    ctx.count('term:' + kind)
    for sig, det in fails:
        ctx.fail('term', sig, {'check': 'term', 'data': data}, det)
    if sample and nt:
        ctx.sample({'check': 'term', 'data': data, 'outcome': kind})


def task_enum(ctx):
    """Complete enumeration of short byte strings, sharded by first byte."""
    full3 = ctx.thorough()
    n = 0
    for a in range(ctx.shard, 256, ctx.nshards):
        if ctx.shard == 0 and a == 0:
            _run_term(ctx, b'')
            n += 1
        _run_term(ctx, bytes([a]))
        n += 1
        for b in range(256):
            _run_term(ctx, bytes([a, b]), sample=(a == 4 and b == 0))
            n += 1
            for c in (range(256) if full3 else BOUNDARY3):
                _run_term(ctx, bytes([a, b, c]), sample=(a == 3 and b == 1 and c == 7))
                n += 1
    ctx.exhaustive['all byte strings of length <= 2'] = sum(1 for a in range(ctx.shard, 256, ctx.nshards)) * 257 + (1 if ctx.shard == 0 else 0)
    if full3:
        ctx.exhaustive['all byte strings of length 3'] = sum(1 for a in range(ctx.shard, 256, ctx.nshards)) * 65536


def _corpus():
    out = []
    for f in sorted(glob.glob(os.path.join(env.REPO, 'tests', 'vectors', '*.hex'))):
        try:
            out.append(('vector:' + os.path.basename(f), bytes.fromhex(open(f).read().strip())))
        except ValueError:
            pass
    for k, v in builders.builder_outputs(b'c12', '01', 5).items():
        out.append(('builder:' + k, v))
    return out


@st.composite
def mutated(draw, corpus):
    name, b = draw(st.sampled_from(corpus))
    b = bytearray(b)
    for _ in range(draw(st.integers(1, 4))):
        op = draw(st.sampled_from(['flip', 'set', 'trunc', 'splice', 'lenfield', 'insert', 'dup']))
        if not b:
            b = bytearray(draw(st.binary(min_size=1, max_size=4)))
        i = draw(st.integers(0, len(b) - 1))
        if op == 'flip':
            b[i] ^= 1 << draw(st.integers(0, 7))
        elif op == 'set':
            b[i] = draw(st.sampled_from([0, 1, 3, 4, 41, 43, 44, 61, 69, 0x7f, 0x80, 0xff]))
        elif op == 'trunc':
            del b[i:]
        elif op == 'splice':
            _, other = draw(st.sampled_from(corpus))
            j = draw(st.integers(0, max(0, len(other) - 1)))
            b[i:] = other[j:]
        elif op == 'lenfield':
            b[i:i + 2] = draw(st.sampled_from([b'\xff\xff', b'\x80\x00', b'\x7f\xff', b'\x00\x00', b'\xff\xfd', b'\x00\x01']))
        elif op == 'insert':
            b[i:i] = draw(st.binary(min_size=1, max_size=6))
        else:
            b[i:i] = b[i:i + draw(st.integers(1, 64))]
    return bytes(b)


@st.composite
def big_binary(draw):
    kind = draw(st.integers(0, 9))
    if kind < 6:
        return draw(st.binary(min_size=0, max_size=64))
    if kind < 9:
        return draw(st.binary(min_size=0, max_size=2048))
    # up to 70 KiB, expanded from a drawn pattern
    head = draw(st.binary(min_size=1, max_size=12))
    pat = draw(st.binary(min_size=1, max_size=64))
    n = draw(st.sampled_from([4096, 32767, 32768, 32772, 65535, 65536, 65540, 70 * 1024]))
    return (head + pat * (n // len(pat) + 1))[:n]


def task_random(ctx):
    hyp.drive(big_binary(), lambda d: _run_term(ctx, d, sample=len(d) > 8), ctx.n(6000, 400000), ctx.seed)
    corpus = _corpus()
    hyp.drive(mutated(corpus), lambda d: _run_term(ctx, d, sample=True), ctx.n(12000, 600000), ctx.seed + 1)


def _run_rtb(ctx, b, origin, sample=False):
    fails = check_rt_bytes(b)
    nt = _rt_nontrivial(b)
    ctx.case(b, nt)
    ctx.count('rt:' + ('ok' if not fails else 'FAIL'))
    ctx.count('rt-origin:' + origin.split(':')[0])
    for sig, det in fails:
        ctx.fail('rtb', sig, {'check': 'rtb', 'data': b, 'origin': origin}, det)
    if sample and nt:
        ctx.sample({'check': 'rtb', 'origin': origin, 'data': b})


def task_rt_corpus(ctx):
    # repository vectors + builder outputs for several key sets / flag operands / leaf counts
    items = []
    if ctx.shard == 0:
        items += _corpus()
    tags = range(ctx.shard, 16 if not ctx.thorough() else 400, ctx.nshards)
    for t in tags:
        for fl in ('00', '01', 'fe') if t % 3 == 0 else ('%02x' % (t & 0x7f),):
            for k, v in builders.builder_outputs(b'rt%d' % t, fl, 1 + t % 7).items():
                items.append(('builder:%s/%d/%s' % (k, t, fl), v))
    for i, (name, b) in enumerate(items):
        _run_rtb(ctx, b, name, sample=(i % 40 == 5))


def task_rt_gen(ctx):
    def one(tree):
        try:
            expected = R.encode(render.lower(tree))
        except R.NotEncodable:
            ctx.count('rt-gen:not-encodable')
            return
        src = render.render(tree, render.Chooser([0]))
        k, b = _try_compile(src)
        if k != 'ok':
            ctx.count('rt-gen:compiler-rejected')
            return
        ctx.count('rt-gen:compiled')
        if b != expected:
            ctx.count('rt-gen:compiled-differs-from-reference(C11)')
        fails = check_rt_bytes(b)
        nt = _rt_nontrivial(b)
        ctx.case(b, nt)
        ctx.count('rt:' + ('ok' if not fails else 'FAIL'))
        for sig, det in fails:
            ctx.fail('rt', sig, {'check': 'rt', 'prog': tree, 'sp': [0]}, det)
        if nt and len(b) < 200:
            ctx.sample({'check': 'rt', 'source': src, 'bytes': b})
    hyp.drive(gen.source_tree(max_depth=4, sugar=True, big=True), one, ctx.n(5000, 250000), ctx.seed)
    # macros whose expansion is a block construct, invoked inside every kind of body (the renderer's own macro is a flat push / copy)
    if ctx.shard == 0:
        inners = ['DEF 1 { OP_TRUE }', 'IF { DEF 1 { OP_TRUE } }', 'LOOP { OP_FALSE }', 'TRY { OP_TRUE } EXCEPT { OP_FALSE }',
                  'IF { OP_DUP } ELSE { }', 'OP_PUSH x0102']
        outers = ['%s', 'DEF 0 { %s }', 'IF { %s }', 'IF { } ELSE { %s }', 'TRY { %s } EXCEPT { }', 'LOOP { %s }', 'DEF 0 { IF { %s } }',
                  'DEF 0 { IF ( %s OP_TRUE ) { OP_FALSE } }']          # a hoisted condition is emitted in front of the IF, inside the DEF body
        for inner in inners:
            for outer in outers:
                for src in ('!= m [ ] { %s } ' % inner + outer % '!m [ ]', outer % inner):
                    k, b = _try_compile(src)
                    if k != 'ok':
                        ctx.count('rt-macro:compiler-rejected')
                        continue
                    fails = check_rt_bytes(b)
                    ctx.case(b, True)
                    ctx.count('rt:' + ('ok' if not fails else 'FAIL'))
                    ctx.count('rt-macro:compiled')
                    for sig, det in fails:
                        ctx.fail('rtsrc', sig, {'check': 'rtsrc', 'src': src}, det)
    # nests at scale: every clause that can carry nesting x depths up to 60
    if ctx.shard == 0:
        for kind in ('except', 'try', 'if', 'else', 'ifelse-if', 'loop'):
            for depth in (4, 8, 14, 20, 30, 60):
                fails = check_work(kind, depth)
                ctx.case(('work', kind, depth), True)
                ctx.count('rt-work:nest depth >= 20' if depth >= 20 else 'rt-work:nest depth < 20')
                for sig, det in fails:
                    ctx.fail('work', sig, {'check': 'work', 'kind': kind, 'depth': depth}, det)
    # operand sizes on both sides of 2^7, 2^8, 2^15, 2^16 for pushes and block bodies
    if ctx.shard == 0:
        for ln in (127, 128, 129, 255, 256, 257, 32767, 32768, 32769, 65535):
            v = bytes([ln & 0xff or 1]) * ln
            for tree in ([['push', v]], [['if', [['push', v]]]], [['def', 1, [['push', v]]]],
                         [['loop', [['push', v]]]], [['try', [['push', v]], [['push', v[:ln // 2] or b'x']]]],
                         [['ife', [['push', v[:ln // 2] or b'x']], [['push', v]]]]):
                one(tree)


TASKS = {
    'enum': (task_enum, 16, 16),
    'random': (task_random, 12, 16),
    'rt_corpus': (task_rt_corpus, 2, 8),
    'rt_gen': (task_rt_gen, 12, 16),
}


def guards(tier, counters, evaluations, nnt):
    msgs = []
    comp = counters.get('rt-gen:compiled', 0)
    rej = counters.get('rt-gen:compiler-rejected', 0)
    if comp + rej and comp < 0.80 * (comp + rej):
        msgs.append('canonical rendering accepted by the compiler in only %d of %d cases' % (comp, comp + rej))
    if counters.get('term:ok', 0) == 0 or counters.get('term:raised', 0) == 0:
        msgs.append('termination classes not both reached')
    return msgs
