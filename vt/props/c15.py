"""C15 - hash- and point-time-locked contracts: claim and refund paths are exact."""
from __future__ import annotations
import hashlib
from .. import env, hyp, optable as O, refasm as R, ed25519_ref as E
from .c13 import valid_sig
from hypothesis import strategies as st
from ..gen import dict_order as gen_dict_order

F, T = env.F, env.T
C = O.CODES
ID = 'C15'
LEVEL = 'exploration'
RULE = ('Hypothesis cases: receiver / refund / outsider seeds, preimages of length 1-64, SHAKE digest sizes 1-64, '
        'timeouts, a pinned build clock (so deadline = int(build clock) + timeout is known), execution timestamps '
        'deadline-1 / deadline / deadline+1 / far, verifier clocks around the slack, tweak scalars (random, clamped, 1, '
        'L-1, L+1), sigfields and flags; every pairing of the five witness kinds (htlc, htlc2, ptlc, ptlc with tweak, '
        'ptlc-refund) with the six lock kinds (htlc sha256 / shake256, htlc2 sha256 / shake256, ptlc, ptlc + tweak), '
        'signed by receiver / refund / outsider, with right / wrong / 1-byte preimages. Oracle: the witness is reduced '
        'to the typed stack it leaves and the acceptance condition of the statement is evaluated per lock kind with the '
        'RFC 8032 reference. non-trivial = a boundary timestamp, a cross pairing, a wrong key / preimage, or a tweak; '
        'distinct by case parameters.'
        ' Tweak scalars include raw and top-bit-set 32-byte strings (lock point = derive_point as documented); digest sizes up to 255; an exception of a builder is a violation.'
        ' Accepted witnesses are replayed over other sigfield contents (the reference decides).')
ASSUMPTIONS = ['clock pinned at build time and at verification time through tools.time / functions.time',
               'the tweak point of a scalar is derive_point(t) as documented: libsodium ignores bit 255 of the scalar there',
               'hash commitments are collision-free except where the predicate evaluates the truncated digest itself']

sha = lambda b: hashlib.sha256(b).digest()  # noqa: E731


def shake(b, n):
    return hashlib.shake_256(b).digest(n)


LOCKS = ['htlc-sha256', 'htlc-shake256', 'htlc2-sha256', 'htlc2-shake256', 'ptlc', 'ptlc-tweak']
WITS = ['htlc', 'htlc2', 'ptlc', 'ptlc-tweak', 'ptlc-refund']


def seed_of(tag, who):
    return sha(b'c15' + tag + who.encode())


def tweak_of(case):
    k = case['tweak_kind']
    raw = sha(b'tw' + case['tag'])
    if k == 'rand':
        t = raw[:31] + bytes([raw[31] & 0x7f])
    elif k == 'raw':
        t = raw                                            # any 32 bytes
    elif k == 'topbit':
        t = raw[:31] + bytes([raw[31] | 0x80])             # bit 255 set: ignored by the point derivation
    elif k == 'clamped':
        t = E.clamp(raw, True)
    elif k == 'one':
        t = (1).to_bytes(32, 'little')
    elif k == 'Lm1':
        t = (E.L - 1).to_bytes(32, 'little')
    else:
        t = (E.L + 1).to_bytes(32, 'little')
    return t


def _tweak_point(tw):
    """derive_point(t) as the library documents it: the base multiplication ignores bit 255 of the scalar"""
    t = int.from_bytes(tw[:31] + bytes([tw[31] & 0x7f]), 'little') % E.L
    return E.enc(E.mul(t, E.G))


def build(case):
    """-> (lock bytes, witness bytes, ground truth dict)"""
    tag = case['tag']
    recv, refund = seed_of(tag, 'recv'), seed_of(tag, 'refund')
    rpk, fpk = E.pub(recv), E.pub(refund)
    pre = case['preimage']
    fl = '%02x' % case['allowed']
    timeout = case['timeout']
    env.pin_clock(case['build_clock'])
    try:
        lk = case['lock']
        hs = case['hash_size']
        if lk == 'htlc-sha256':
            lock = T.make_htlc_sha256_lock(rpk, fpk, preimage=pre, timeout=timeout, sigflags=fl)
        elif lk == 'htlc-shake256':
            lock = T.make_htlc_shake256_lock(rpk, fpk, preimage=pre, hash_size=hs, timeout=timeout, sigflags=fl)
        elif lk == 'htlc2-sha256':
            lock = T.make_htlc2_sha256_lock(rpk, fpk, preimage=pre, timeout=timeout, sigflags=fl)
        elif lk == 'htlc2-shake256':
            lock = T.make_htlc2_shake256_lock(rpk, fpk, preimage=pre, hash_size=hs, timeout=timeout, sigflags=fl)
        elif lk == 'ptlc':
            lock = T.make_ptlc_lock(rpk, fpk, timeout=timeout, sigflags=fl)
        else:
            tw = tweak_of(case)
            Tp = _tweak_point(tw)
            lock = T.make_ptlc_lock(rpk, fpk, tweak_point=Tp, timeout=timeout, sigflags=fl)
    finally:
        env.unpin_clock()
    signer = seed_of(tag, case['signer'])
    wf = '%02x' % (case['flag'] & 0xff)
    wpre = {'right': pre, 'wrong': sha(pre)[:len(pre)] if sha(pre)[:len(pre)] != pre else b'\x00' + pre, 'one': b'\x00'}[case['wpreimage']]
    fields = case['fields']
    wk = case['witness']
    if wk == 'htlc':
        wit = T.make_htlc_witness(signer, wpre, dict(fields), wf)
    elif wk == 'htlc2':
        wit = T.make_htlc2_witness(signer, wpre, dict(fields), wf)
    elif wk == 'ptlc':
        wit = T.make_ptlc_witness(signer, dict(fields), sigflags=wf)
    elif wk == 'ptlc-tweak':
        wit = T.make_ptlc_witness(signer, dict(fields), tweak_scalar=tweak_of(case), sigflags=wf)
    else:
        wit = T.make_ptlc_refund_witness(signer, dict(fields), wf)
    truth = {'rpk': rpk, 'fpk': fpk, 'deadline': int(case['build_clock']) + timeout}
    if case['lock'] == 'ptlc-tweak':
        tw = tweak_of(case)
        truth['rpk'] = E.enc(E.add(E.dec(rpk), E.dec(_tweak_point(tw))))
    return lock.bytes, wit.bytes, truth


def ref_accept(case, truth, st_):
    fields, allowed = case['fields'], case['allowed']
    t, now, thr = case['t'], case['now'], case['thr']
    refund_time_ok = t >= truth['deadline'] and (thr <= 0 or t - int(now) < thr)
    lk = case['lock']
    if lk.startswith('htlc'):
        pre = case['preimage']
        digest = sha(pre) if lk.endswith('sha256') else shake(pre, case['hash_size'])
        H = (lambda b: sha(b)) if lk.endswith('sha256') else (lambda b: shake(b, case['hash_size']))
        if lk.startswith('htlc2'):
            if len(st_) != 3:
                return False
            sig, key, p = st_
            if H(p) == digest:
                want = truth['rpk']
            else:
                if not refund_time_ok:
                    return False
                want = truth['fpk']
            # the layout-2 locks commit to the keys by a truncated SHAKE-256 hash: 20 bytes in the sha256 lock, hash_size bytes
            # in the shake256 lock - "the receiver key" is, for the lock, any key with that hash (1 in 256 for hash_size 1)
            ks = 20 if lk.endswith('sha256') else case['hash_size']
            if len(key) != 32 or shake(key, ks) != shake(want, ks):
                return False
            return valid_sig(sig, key, allowed, fields)
        if len(st_) != 2:
            return False
        sig, p = st_
        if H(p) == digest:
            return valid_sig(sig, truth['rpk'], allowed, fields)
        return refund_time_ok and valid_sig(sig, truth['fpk'], allowed, fields)
    if len(st_) != 2:
        return False
    sig, sel = st_
    if any(sel):
        return valid_sig(sig, truth['rpk'], allowed, fields)
    return refund_time_ok and valid_sig(sig, truth['fpk'], allowed, fields)


def evaluate(case):
    try:
        lock, wit, truth = build(case)
    except BaseException as e:  # noqa
        if isinstance(e, (KeyboardInterrupt, SystemExit)):
            raise
        # every parameter combination the generator draws is inside the documented domain of the builders
        return [('tlc/%s/builder-raises-%s' % (case['lock'], type(e).__name__), '%s (hash_size %r, witness %s)' % (
            str(e)[:80], case.get('hash_size'), case['witness']))], {'expected': None, 'deadline': 0, 'matched': False}
    prog = R.decode(wit)
    pushes = (C['OP_PUSH0'], C['OP_PUSH1'], C['OP_PUSH2'], C['OP_TRUE'], C['OP_FALSE'])
    if not all(n[0] == 'i' and n[1] in pushes for n in prog):
        return [], {'skip': True}
    _, s, _ = F.run_script(wit)
    items = s.list()
    exp = ref_accept(case, truth, items)
    env.pin_clock(case['now'])
    old = F.flags['ts_threshold']
    F.flags['ts_threshold'] = case['thr']
    try:
        got = F.run_auth_scripts([wit, lock], dict(case['fields'], timestamp=case['t']))
    finally:
        F.flags['ts_threshold'] = old
        env.unpin_clock()
    fails = []
    wpre = {'right': case['preimage'], 'wrong': None, 'one': b'\x00'}[case['wpreimage']]
    if case['lock'].startswith('htlc') and wpre is not None:
        Hh = sha if case['lock'].endswith('sha256') else (lambda b: shake(b, case['hash_size']))
        hash_matches = Hh(wpre) == Hh(case['preimage'])
    else:
        hash_matches = case['wpreimage'] == 'right' if case['wpreimage'] != 'wrong' else None
    matched = _matched(case, hash_matches)
    info = {'expected': exp, 'deadline': truth['deadline'], 'matched': matched}
    if got is True and exp:
        # the accepted witness again, in the same process, over other sigfield contents: the reference decides
        case2 = dict(case, fields={k: v + b'!' for k, v in case['fields'].items()})
        info['replayed'] = True
        if not ref_accept(case2, truth, items):
            env.pin_clock(case['now'])
            old2 = F.flags['ts_threshold']
            F.flags['ts_threshold'] = case['thr']
            try:
                if F.run_auth_scripts([wit, lock], dict(case2['fields'], timestamp=case['t'])):
                    fails.append(('tlc/%s/accepted-witness-still-accepted-over-other-sigfield-contents' % case['lock'], 'witness %s' % case['witness']))
            finally:
                F.flags['ts_threshold'] = old2
                env.unpin_clock()
    if matched is True and not got:
        fails.append(('tlc/%s/builder-witness-fails-although-its-path-condition-holds' % case['lock'],
                      'witness %s signer %s t-deadline=%d: reference on its stack says %r' % (
                          case['witness'], case['signer'], case['t'] - truth['deadline'], exp)))
    elif got != exp:
        why = 'rejects-rightful' if exp else 'accepts/%s-by-%s-preimage-%s-t%+d' % (
            case['witness'], case['signer'], case['wpreimage'], max(-2, min(2, case['t'] - truth['deadline'])))
        fails.append(('tlc/%s/%s' % (case['lock'], why), 'got %r expected %r (t=%d deadline=%d now=%s thr=%d)' % (
            got, exp, case['t'], truth['deadline'], case['now'], case['thr'])))
    return fails, info


def _matched(case, hash_matches):
    """True when the property itself promises success: builder witness of the right kind, right key, path condition holds."""
    lk, wk = case['lock'], case['witness']
    flag_ok = (case['flag'] & ~case['allowed'] & 0xff) == 0
    if not flag_ok:
        return None
    fam = {'htlc-sha256': 'htlc', 'htlc-shake256': 'htlc', 'htlc2-sha256': 'htlc2', 'htlc2-shake256': 'htlc2'}.get(lk)
    deadline = int(case['build_clock']) + case['timeout']
    time_ok = case['t'] >= deadline and (case['thr'] <= 0 or case['t'] - int(case['now']) < case['thr'])
    if fam and wk == fam:
        if hash_matches is True and case['signer'] == 'recv':
            return True
        if hash_matches is False and case['signer'] == 'refund' and time_ok:
            return True
    if lk == 'ptlc' and wk == 'ptlc' and case['signer'] == 'recv':
        return True
    if lk == 'ptlc-tweak' and wk == 'ptlc-tweak' and case['signer'] == 'recv':
        return True
    if lk in ('ptlc', 'ptlc-tweak') and wk == 'ptlc-refund' and case['signer'] == 'refund' and time_ok:
        return True
    return None


def check_case(case):
    if case.get('check') != 'tlc':
        raise ValueError('check')
    if case['lock'] not in LOCKS or case['witness'] not in WITS or not 1 <= len(case['preimage']) <= 64 or \
            not 1 <= case['hash_size'] <= 255 or min(case['t'], case['now'], case['build_clock'], case['timeout']) < 0 or \
            case['signer'] not in ('recv', 'refund', 'outsider') or case['flag'] == 0xff:
        raise ValueError('domain')
    return evaluate(case)[0]


@st.composite
def tlc_case(draw):
    build_clock = draw(st.sampled_from([1_700_000_000, 1_700_000_000.75, 1000, 0]))
    timeout = draw(st.sampled_from([0, 1, 60, 86400, 10 ** 6]))
    deadline = int(build_clock) + timeout
    t = max(0, deadline + draw(st.sampled_from([-1, 0, 1, -1, 0, 1, -1000, 1000, 10 ** 6])))
    thr = draw(st.sampled_from([60, 60, 0, 1, 120]))
    now = max(0, t - thr + draw(st.sampled_from([-1, 0, 1, 2, 5, 50]))) if thr > 0 else max(0, t - draw(st.integers(-50, 50)))
    allowed = draw(st.sampled_from([0, 0, 1, 0x81, 0x7f]))
    lock = draw(st.sampled_from(LOCKS))
    matched_w = {'htlc-sha256': 'htlc', 'htlc-shake256': 'htlc', 'htlc2-sha256': 'htlc2', 'htlc2-shake256': 'htlc2',
                 'ptlc': 'ptlc', 'ptlc-tweak': 'ptlc-tweak'}[lock]
    wk = draw(st.sampled_from([matched_w, matched_w, matched_w, 'ptlc-refund'] + WITS))
    fields = {'sigfield%d' % i: draw(st.binary(min_size=1, max_size=8)) for i in range(1, 9) if draw(st.integers(0, 2)) == 0} or {'sigfield3': b'm'}
    fields = gen_dict_order(draw, fields)
    return {'check': 'tlc', 'tag': draw(st.binary(min_size=1, max_size=2)), 'lock': lock, 'witness': wk,
            'signer': draw(st.sampled_from(['recv', 'recv', 'refund', 'refund', 'outsider'])),
            'preimage': draw(st.one_of(st.binary(min_size=16, max_size=32), st.binary(min_size=1, max_size=64))),
            'wpreimage': draw(st.sampled_from(['right', 'right', 'wrong', 'one'])),
            'hash_size': draw(st.one_of(st.sampled_from([20, 20, 1, 2, 32, 64, 127, 128, 200, 255]), st.integers(1, 64))),
            'timeout': timeout, 'build_clock': build_clock, 't': t, 'now': now, 'thr': thr,
            'tweak_kind': draw(st.sampled_from(['rand', 'raw', 'topbit', 'clamped', 'one', 'Lm1', 'Lp1'])),
            'fields': fields, 'allowed': allowed, 'flag': draw(st.sampled_from([0, 0, allowed, allowed & 1, 0x02]))}


def task_main(ctx):
    def one(c):
        fails, info = evaluate(c)
        if info.get('skip'):
            ctx.count('skipped')
            return
        fam = {'htlc-sha256': 'htlc', 'htlc-shake256': 'htlc', 'htlc2-sha256': 'htlc2', 'htlc2-shake256': 'htlc2',
               'ptlc': 'ptlc', 'ptlc-tweak': 'ptlc-tweak'}[c['lock']]
        cross = c['witness'] not in (fam, 'ptlc-refund' if fam.startswith('ptlc') else fam)
        nt = abs(c['t'] - info['deadline']) <= 1 or cross or c['signer'] == 'outsider' or c['wpreimage'] != 'right' or 'tweak' in c['lock']
        ctx.case(c, nt)
        ctx.count('expected:%s' % info['expected'])
        ctx.count('lock:' + c['lock'])
        ctx.count('witness:' + c['witness'])
        if cross:
            ctx.count('cross-pairing')
        if info['matched']:
            ctx.count('promised-by-property')
        for s, d in fails:
            ctx.fail('tlc', s, c, d)
        if nt:
            ctx.sample({k: v for k, v in c.items() if k != 'check'})
    hyp.drive(tlc_case(), one, ctx.n(9000, 200000), ctx.seed)


TASKS = {'main': (task_main, 16, 16)}


def guards(tier, c, evaluations, nnt):
    msgs = []
    t, f = c.get('expected:True', 0), c.get('expected:False', 0)
    if t < 0.15 * (t + f):
        msgs.append('only %d of %d cases unlock' % (t, t + f))
    return msgs
