"""./check <ID> [--tier quick|thorough] [--replay FILE]

Exit 0: property held on everything explored (known findings are listed as
KNOWN-FINDING lines).  Exit 1: at least one violation that is not a listed
known finding, one `VIOLATION property=<ID> replay=<path>` line per root-cause
bucket.  Exit 2: harness error (never prints VIOLATION)."""
from __future__ import annotations
import argparse
import collections
import hashlib
import importlib
import json
import multiprocessing as mp
import os
import resource
import signal
import sys
import time
import traceback

VERIF = os.path.dirname(os.path.dirname(os.path.abspath(__file__)))
OUT = os.environ.get('VERIF_OUT') or VERIF   # development aid: mutant runs write elsewhere
NPROC = min(16, os.cpu_count() or 1)
MAX_BUCKETS_SHRUNK = 8


class HarnessError(Exception):
    pass


class Ctx:
    """Per-shard accumulator handed to a property task."""

    def __init__(self, pid, tier, base_seed, task, shard, nshards):
        self.pid, self.tier, self.task, self.shard, self.nshards = pid, tier, task, shard, nshards
        self.base_seed = base_seed
        h = hashlib.sha256(('%d:%s:%s:%d' % (base_seed, pid, task, shard)).encode()).digest()
        self.seed = int.from_bytes(h[:8], 'big')
        self.evaluations = 0
        self.nt = set()
        self.counters = collections.Counter()
        self.samples = []
        self.failures = {}      # (check, signature) -> list of (size, case, detail)
        self.fail_counts = collections.Counter()
        self.exhaustive = {}
        self.timeouts = 0

    # -- sizing
    def n(self, quick, thorough=None):
        """Per-shard share of a case budget."""
        total = quick if (self.tier == 'quick' or thorough is None) else thorough
        base, extra = divmod(total, self.nshards)
        return base + (1 if self.shard < extra else 0)

    def thorough(self):
        return self.tier == 'thorough'

    # -- accounting
    def case(self, key=None, nontrivial=False, n=1):
        self.evaluations += n
        if nontrivial and key is not None:
            from .util import digest
            self.nt.add(digest(key))

    def count(self, name, n=1):
        self.counters[name] += n

    def sample(self, obj, cap=3):
        if len(self.samples) < cap:
            from .util import short
            self.samples.append(short(obj))

    def fail(self, check, signature, case, detail=''):
        from .util import canon
        k = (check, signature)
        self.fail_counts[k] += 1
        lst = self.failures.setdefault(k, [])
        case = dict(case)
        case.setdefault('check', check)
        try:
            sz = len(canon(case))
        except Exception:
            sz = 1 << 30
        lst.append((sz, case, str(detail)[:2000]))
        lst.sort(key=lambda t: t[0])
        del lst[3:]

    def export(self):
        return dict(task=self.task, shard=self.shard, evaluations=self.evaluations, nt=self.nt,
                    counters=dict(self.counters), samples=self.samples, failures=self.failures,
                    fail_counts=dict(self.fail_counts), exhaustive=self.exhaustive, timeouts=self.timeouts)


def _limit_resources():
    try:
        lim = 6 * 1024 ** 3
        resource.setrlimit(resource.RLIMIT_AS, (lim, lim))
    except Exception:
        pass


def _worker(conn, pid, tier, seed, task, shard, nshards):
    try:
        _limit_resources()
        sys.setrecursionlimit(1000)
        mod = importlib.import_module('vt.props.' + pid.lower())
        ctx = Ctx(pid, tier, seed, task, shard, nshards)
        fn = mod.TASKS[task][0]
        fn(ctx)
        conn.send(('ok', ctx.export()))
    except BaseException as e:  # noqa
        try:
            conn.send(('err', '%s shard %d: %s\n%s' % (task, shard, repr(e), traceback.format_exc())))
        except Exception:
            pass
    finally:
        conn.close()


def run_jobs(pid, tier, seed, jobs, job_timeout):
    """Run (task, shard, nshards) jobs over NPROC fresh processes."""
    mpctx = mp.get_context('fork')
    pending = list(reversed(jobs))
    running = {}
    results, errors = [], []
    while pending or running:
        while pending and len(running) < NPROC:
            job = pending.pop()
            pc, cc = mpctx.Pipe(duplex=False)
            p = mpctx.Process(target=_worker, args=(cc, pid, tier, seed) + job)
            p.start()
            cc.close()
            running[p.pid] = (p, pc, job, time.time())
        done = []
        for k, (p, pc, job, t0) in running.items():
            if pc.poll(0):
                try:
                    kind, payload = pc.recv()
                except EOFError:
                    kind, payload = 'err', '%s shard %d: worker died without a result (exit %s)' % (
                        job[0], job[1], p.exitcode)
                p.join(30)
                if kind == 'ok':
                    results.append(payload)
                else:
                    errors.append(payload)
                done.append(k)
            elif not p.is_alive():
                p.join()
                # drain once more: result may have arrived between poll and is_alive
                if pc.poll(0):
                    continue
                errors.append('%s shard %d: worker died without a result (exit %s)' % (job[0], job[1], p.exitcode))
                done.append(k)
            elif time.time() - t0 > job_timeout:
                p.kill()
                p.join()
                errors.append('%s shard %d: harness watchdog (%ds) expired' % (job[0], job[1], job_timeout))
                done.append(k)
        for k in done:
            running[k][1].close()
            del running[k]
        if not done:
            time.sleep(0.02)
    results.sort(key=lambda r: (r['task'], r['shard']))
    return results, errors


def load_known(pid):
    path = os.path.join(VERIF, 'known_findings.json')
    if not os.path.exists(path):
        return []
    with open(path) as f:
        data = json.load(f)
    return [e for e in data.get('findings', []) if e.get('property') == pid]


def _check_case_isolated(mod, case, timeout=120):
    """Run mod.check_case(case) in a forked child; returns list of (signature, detail)."""
    mpctx = mp.get_context('fork')
    pc, cc = mpctx.Pipe(duplex=False)

    def child():
        try:
            _limit_resources()
            sys.setrecursionlimit(1000)
            out = mod.check_case(case)
            cc.send(('ok', [(s, str(d)[:2000]) for s, d in out]))
        except BaseException as e:  # noqa
            cc.send(('invalid', repr(e)))
        finally:
            cc.close()
    p = mpctx.Process(target=child)
    p.start()
    cc.close()
    res = ('invalid', 'no result')
    if pc.poll(timeout):
        try:
            res = pc.recv()
        except EOFError:
            res = ('invalid', 'child died')
    else:
        p.kill()
    p.join(10)
    pc.close()
    return res


def write_replay(pid, check, signature, case, detail, minimal):
    from .util import to_jsonable, canon
    from . import env
    commit, dirty = env.repo_commit()
    h = hashlib.sha256((check + '|' + signature).encode()).hexdigest()[:12]
    path = os.path.join(OUT, 'replays', '%s-%s.json' % (pid, h))
    os.makedirs(os.path.dirname(path), exist_ok=True)
    with open(path, 'w') as f:
        json.dump({'property': pid, 'check': check, 'signature': signature, 'detail': detail,
                   'minimised': minimal, 'tapescript_commit': commit, 'tapescript_dirty': dirty,
                   'case': to_jsonable(case)}, f, indent=1, sort_keys=True)
    return path


def do_replay(pid, mod, path):
    from .util import from_jsonable
    with open(path) as f:
        data = json.load(f)
    case = from_jsonable(data['case'])
    kind, out = _check_case_isolated(mod, case, timeout=600)
    if kind != 'ok':
        print('replay: case could not be evaluated: %s' % (out,))
        return 2
    if out:
        for sig, detail in out:
            print('replay: %s :: %s' % (sig, detail))
        print('VIOLATION property=%s replay=%s' % (pid, path))
        return 1
    print('replay: case passes')
    return 0


def main(argv=None):
    ap = argparse.ArgumentParser()
    ap.add_argument('pid')
    ap.add_argument('--tier', default=os.environ.get('VERIF_TIER') or 'quick', choices=['quick', 'thorough'])
    ap.add_argument('--replay')
    ap.add_argument('--tasks', help='comma-separated subset of tasks (development aid)')
    ap.add_argument('--no-shrink', action='store_true')
    args = ap.parse_args(argv)
    pid = args.pid.upper()
    try:
        seed = int(os.environ.get('VERIF_SEED') or '1')
    except ValueError:
        seed = 1
    t0 = time.time()
    try:
        mod = importlib.import_module('vt.props.' + pid.lower())
    except BaseException as e:  # noqa
        traceback.print_exc()
        print('HARNESS-ERROR property=%s import failed: %r' % (pid, e))
        return 2
    if args.replay:
        return do_replay(pid, mod, args.replay)

    tier = args.tier
    jobs = []
    for task, (fn, nq, nt_) in mod.TASKS.items():
        if args.tasks and task not in args.tasks.split(','):
            continue
        ns = nq if tier == 'quick' else nt_
        for s in range(ns):
            jobs.append((task, s, ns))
    # regression replays first (seconds)
    regress_fail = []
    rdir = os.path.join(VERIF, 'replays', 'regress')
    if os.path.isdir(rdir) and not args.tasks:
        from .util import from_jsonable
        for fn_ in sorted(os.listdir(rdir)):
            if fn_.startswith(pid + '-') and fn_.endswith('.json'):
                with open(os.path.join(rdir, fn_)) as f:
                    data = json.load(f)
                kind, out = _check_case_isolated(mod, from_jsonable(data['case']), timeout=300)
                if kind == 'ok' and out:
                    regress_fail.append((fn_, data, out))
    rp = os.path.join(OUT, 'replays')
    if os.path.isdir(rp) and not args.tasks:
        for fn_ in os.listdir(rp):
            if fn_.startswith(pid + '-') and fn_.endswith('.json'):
                os.unlink(os.path.join(rp, fn_))
    job_timeout = getattr(mod, 'JOB_TIMEOUT', {'quick': 900, 'thorough': 4 * 3600})[tier]
    results, errors = run_jobs(pid, tier, seed, jobs, job_timeout)

    # ---- merge
    evaluations = sum(r['evaluations'] for r in results)
    nt = set()
    counters = collections.Counter()
    samples = []
    samples_by_task = {}
    exhaustive = {}
    failures = {}
    fail_counts = collections.Counter()
    for r in results:
        nt |= r['nt']
        counters.update(r['counters'])
        samples_by_task.setdefault(r['task'], []).extend(r['samples'])
        for k, v in r['exhaustive'].items():
            exhaustive[k] = exhaustive.get(k, 0) + v
        for k, lst in r['failures'].items():
            failures.setdefault(k, []).extend(lst)
        fail_counts.update(r['fail_counts'])
    for i in range(4):
        for t in sorted(samples_by_task):
            if i < len(samples_by_task[t]) and len(samples) < 8:
                samples.append(samples_by_task[t][i])
    for fn_, data, out in regress_fail:
        for sig, detail in out:
            k = (data.get('check', 'regress'), sig)
            failures.setdefault(k, []).append((0, __import__('vt.util', fromlist=['x']).from_jsonable(data['case']), detail))
            fail_counts[k] += 1

    known = load_known(pid)
    open_keys = {e['key']: e for e in known if e.get('status') == 'open'}
    known_hits = collections.Counter()
    new = {}
    for (check, sig), lst in failures.items():
        if sig in open_keys:
            known_hits[sig] += fail_counts[(check, sig)]
        else:
            lst.sort(key=lambda t: t[0])
            new[(check, sig)] = lst

    guard_msgs = []
    if not errors and hasattr(mod, 'guards') and not args.tasks:
        try:
            guard_msgs = list(mod.guards(tier, counters, evaluations, len(nt)) or [])
        except Exception as e:  # noqa
            guard_msgs = ['guards() raised %r' % (e,)]

    # ---- shrink + replay files
    violations = []
    for i, ((check, sig), lst) in enumerate(sorted(new.items(), key=lambda kv: kv[0])):
        sz, case, detail = lst[0]
        minimal = False
        if i < MAX_BUCKETS_SHRUNK and not args.no_shrink and not getattr(mod, 'NO_SHRINK', False):
            from .util import shrink

            def still(c, _sig=sig):
                kind, out = _check_case_isolated(mod, c, timeout=60)
                return kind == 'ok' and any(s == _sig for s, _ in out)
            try:
                budget = 150 if tier == 'quick' else 600
                small = shrink(case, still, budget=budget)
                if small is not case:
                    kind, out = _check_case_isolated(mod, small, timeout=60)
                    if kind == 'ok':
                        for s, d in out:
                            if s == sig:
                                case, detail, minimal = small, d, True
                                break
            except Exception:
                traceback.print_exc()
        path = write_replay(pid, check, sig, case, detail, minimal)
        violations.append((check, sig, path, detail, fail_counts[(check, sig)]))

    wall = time.time() - t0
    # ---- evidence
    cov = {
        'evaluations': int(evaluations),
        'distinct_nontrivial': len(nt),
        'rule': getattr(mod, 'RULE', ''),
        'samples': samples,
        'exhaustive': False,
        'classes': {k: counters[k] for k in sorted(counters)},
        'exhaustive_subdomains': exhaustive,
        'known_finding_hits': dict(known_hits),
        'inconclusive_timeout': sum(r['timeouts'] for r in results),
        'shards': len(results),
        'violation_buckets': [{'check': c, 'signature': s, 'count': n, 'replay': os.path.relpath(p, OUT)}
                              for c, s, p, d, n in violations],
        'harness_errors': errors[:5],
        'guard_messages': guard_msgs,
    }
    from . import env
    commit, dirty = env.repo_commit()
    ev = {
        'property_id': pid, 'tier': tier, 'seed': seed, 'level': getattr(mod, 'LEVEL', 'exploration'),
        'coverage': cov, 'assumptions': list(getattr(mod, 'ASSUMPTIONS', [])),
        'wall_s': round(wall, 2), 'violations': len(violations),
        'tapescript_commit': commit, 'tapescript_dirty': dirty,
    }
    os.makedirs(os.path.join(OUT, 'evidence'), exist_ok=True)
    with open(os.path.join(OUT, 'evidence', pid + '.json'), 'w') as f:
        json.dump(ev, f, indent=1, sort_keys=True)
        f.write('\n')

    # ---- report
    print('%s tier=%s seed=%d evaluations=%d distinct_nontrivial=%d wall=%.1fs' % (
        pid, tier, seed, evaluations, len(nt), wall))
    for e in known:
        if e.get('status') == 'open':
            print('KNOWN-FINDING: property=%s %s [%s] (hit %d times in this run)' % (
                pid, e.get('what', ''), e['key'], known_hits.get(e['key'], 0)))
    for check, sig, path, detail, n in violations:
        print('  bucket %s :: %s (%d cases) :: %s' % (check, sig, n, detail[:300]))
        print('VIOLATION property=%s replay=%s' % (pid, path))
    for e in errors[:5]:
        print('HARNESS-ERROR property=%s %s' % (pid, e))
    if violations:
        return 1
    if errors:
        return 2
    if guard_msgs:
        for g in guard_msgs:
            print('HARNESS-ERROR property=%s vacuity guard: %s' % (pid, g))
        return 2
    return 0


if __name__ == '__main__':
    sys.exit(main())
