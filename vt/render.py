"""Source trees (abstract programs + syntactic sugar), their lowering to plain
abstract programs and their rendering to tapescript source text under a
vector of spelling choices.

Source-tree nodes (JSON friendly) = the plain nodes of refasm plus
  ['push', bytes]                 OP_PUSH val  (smallest push that fits)
  ['varset', name, [bytes...]]    @= name [ vals ]
  ['varsetn', name, n]            @= name n
  ['varload', name]  ['varsize', name]
  ['macro', mname, [argvals as bytes...], n_copy]   != m [ a b ] { push a copy b } + !m [ .. ]
  ['comptime', body]              push ~ { body }
  ['comptime_exec', bytes]        push ~! { push <bytes> sha256 }
"""
from __future__ import annotations
import hashlib
import struct
from . import optable as O
from . import refasm as R

C = O.CODES


class Chooser:
    """Deterministic choice source: a list of ints consumed cyclically.
    An all-zero (or empty) vector selects the canonical spelling."""

    def __init__(self, vec, off=(), comment_rate=7):
        self.comment_rate = comment_rate if isinstance(comment_rate, int) and comment_rate >= 2 else 7
        self.vec = list(vec) or [0]
        self.i = 0
        self.noncanon = 0
        self.off = set(off)
        self.used = set()

    def __call__(self, k, feature=None):
        v = self.vec[self.i % len(self.vec)]
        self.i += 1
        if not isinstance(v, int) or k <= 1:
            return 0
        r = v % k
        if feature in self.off:
            return 0
        if r:
            self.noncanon += 1
            if feature:
                self.used.add(feature)
        return r


# ------------------------------------------------------------------ lowering
def lower(tree):
    out = []
    for n in tree:
        k = n[0]
        if k == 'i':
            out.append(list(n))
        elif k == 'push':
            out.append(R.push(n[1]))
        elif k == 'varset':
            name, vals = n[1], n[2]
            for v in vals:
                out.append(R.push(v))
            out.append(['i', C['OP_WRITE_CACHE'], name.encode(), len(vals)])
        elif k == 'varsetn':
            out.append(['i', C['OP_WRITE_CACHE'], n[1].encode(), n[2]])
        elif k == 'varload':
            out.append(['i', C['OP_READ_CACHE'], n[1].encode()])
        elif k == 'varsize':
            out.append(['i', C['OP_READ_CACHE_SIZE'], n[1].encode()])
        elif k == 'macro':
            v, cnt = n[2], n[3]
            out.append(R.push(v))
            out.append(['i', C['OP_COPY'], cnt])
        elif k == 'comptime':
            out.append(R.push(R.encode(lower(n[1]))))
        elif k == 'comptime_exec':
            out.append(R.push(hashlib.sha256(n[1]).digest()))
        elif k == 'def':
            out.append(['def', n[1], lower(n[2])])
        elif k == 'if':
            # ['if', body] or ['if', body, hoisted]
            if len(n) > 2 and n[2]:
                out.extend(lower(n[2]))
            out.append(['if', lower(n[1])])
        elif k == 'ife':
            if len(n) > 3 and n[3]:
                out.extend(lower(n[3]))
            out.append(['ife', lower(n[1]), lower(n[2])])
        elif k == 'try':
            out.append(['try', lower(n[1]), lower(n[2])])
        elif k == 'loop':
            out.append(['loop', lower(n[1])])
        else:
            raise R.NotEncodable('node %r' % (k,))
    return out


def desugar(tree):
    """Replace sugar nodes by the plain nodes they stand for (keeps hoisting)."""
    out = []
    for n in tree:
        k = n[0]
        if k in ('varset', 'varsetn', 'varload', 'varsize', 'macro', 'comptime', 'comptime_exec'):
            out.extend(lower([n]))
        elif k == 'def':
            out.append(['def', n[1], desugar(n[2])])
        elif k == 'if':
            out.append(['if', desugar(n[1])] + ([desugar(n[2])] if len(n) > 2 and n[2] else []))
        elif k == 'ife':
            out.append(['ife', desugar(n[1]), desugar(n[2])] + ([desugar(n[3])] if len(n) > 3 and n[3] else []))
        elif k == 'try':
            out.append(['try', desugar(n[1]), desugar(n[2])])
        elif k == 'loop':
            out.append(['loop', desugar(n[1])])
        else:
            out.append(n)
    return out


FEATURES = ('comments', 'endstyle', 'hoist', 'sugar', 'case', 'alias', 'values', 'pushsize')

# ----------------------------------------------------------------- rendering
def _case(s, ch):
    c = ch(3, 'case')
    if c == 0:
        return s.upper()
    if c == 1:
        return s.lower()
    out = []
    for i, x in enumerate(s):
        out.append(x.upper() if (i + c + len(s)) % 2 else x.lower())
    return ''.join(out)


def _opname(code, ch):
    if code >= O.N_OPS:
        return _case('NOP%d' % code, ch)
    nm = O.NAMES[code]
    forms = [nm] + O.ALIASES[nm]
    return _case(forms[ch(len(forms), 'alias')], ch)


def _hexval(b, ch):
    p = 'xX'[1 if ch(5, 'values') == 4 else 0]
    h = b.hex()
    if ch(4, 'values') == 3:
        h = h.upper()
    return p + h


def _min_signed(n):
    return R._min_signed(n)


def _is_clean_str(b):
    try:
        s = b.decode('utf-8')
    except UnicodeDecodeError:
        return None
    if s != s.strip() or '  ' in s:      # the empty string is a string
        return None
    for chh in s:
        if chh in '"\'' or (chh.isspace() and chh != ' ') or not chh.isprintable():
            return None
    if s.encode('utf-8') != b:
        return None
    return s


def _value(b, ch, allow_d=True, allow_s=True):
    """A value token for bytes b: x-hex (canonical), d-decimal when b is the
    minimal signed encoding of an int, s-string when b is clean utf-8."""
    forms = ['x']
    if allow_d and 0 < len(b) <= 260:
        n = int.from_bytes(b, 'big', signed=True)
        if _min_signed(n) == b:
            forms.append('d')
    if allow_s:
        s = _is_clean_str(b)
        if s is not None:
            forms.append('s')
    f = forms[ch(len(forms), 'values')]
    if f == 'x':
        return _hexval(b, ch)
    if f == 'd':
        n = int.from_bytes(b, 'big', signed=True)
        return 'dD'[1 if ch(5, 'values') == 4 else 0] + str(n)
    s = _is_clean_str(b)
    q = '"\''[ch(2, 'values')]
    return 's' + q + s + q


def _u8(n, ch, signed_dec=True):
    """One-byte operand: x-hex canonical, decimal variant."""
    if not isinstance(n, int) or not 0 <= n <= 255:
        return 'd%d' % n          # unencodable on purpose
    if ch(2, 'values') == 0:
        return _hexval(bytes([n]), ch)
    if signed_dec:
        return 'd%d' % (n - 256 if n > 127 else n)
    return 'd%d' % n


COMMENT_WORDS = ['hello', 'x01', 'd5', 'if', '{', '}', 'end_if', 'else', 'push', 'true', '(', ')', '~', '@x',
                 '[', ']', 'end_def', 'loop', 'try', 'except', '~!', 'def', '0', 'end_loop', '!m', '@=', 'y',
                 '~ {', '~! {', '} else {', 'end_if }', '( true )', '!= m [']


_CW_CLASSES = {
    'comments:tilde': ('~', '~!'),
    'comments:braces': ('{', '}'),
    'comments:parens': ('(', ')'),
    'comments:brackets': ('[', ']'),
    'comments:keywords': ('if', 'end_if', 'else', 'end_def', 'loop', 'try', 'except', 'def', 'end_loop', 'push', 'true'),
    'comments:sugar': ('@x', '!m', '@='),
}
COMMENT_SUBFEATURES = tuple(_CW_CLASSES)


HOSTILE = ['~ {', '~! {', '}', '} }', '{', '(', ')', 'end_if', 'else', 'end_def', '} else {', '[', ']', '!= m [ a ] {',
           'end_loop', 'except', 'end_except', '{ {']


def _comment(ch):
    if ch(ch.comment_rate, 'comments') != ch.comment_rate - 1:
        return ''
    q = ['#', '"', "'"][ch(3, 'comments')]
    n = ch(4, 'comments')
    words = []
    for _ in range(n):
        w = COMMENT_WORDS[ch(len(COMMENT_WORDS), 'comments')]
        words.append(w)
    if ch(3, 'comments') == 2:
        # a single hostile body between hashtags
        q = '#'
        words = [HOSTILE[ch(len(HOSTILE), 'comments')]]
    out = []
    for w in words:
        for sub, ws in _CW_CLASSES.items():
            if sub in ch.off and any(t in ws for t in w.split()):
                w = 'hello'
        out.append(w)
    return ' ' + q + ' ' + ' '.join(out) + (' ' if out else '') + q + ' '


def _ends_dangling(tree_tail_src_kind):
    return tree_tail_src_kind


class _Ctx:
    def __init__(self):
        self.macros = 0


def render(tree, ch, _in_def=False, _force_end_last=False, _ctx=None):
    """Render a source tree to text.  Returns the text.  `_force_end_last`
    makes the last statement avoid brace style (dangling ELSE/EXCEPT rule)."""
    ctx = _ctx or _Ctx()
    if 'sugar' in ch.off and _ctx is None:
        tree = desugar(tree)
    parts = []
    for idx, n in enumerate(tree):
        last = idx == len(tree) - 1
        force_end = _force_end_last and last
        parts.append(_comment(ch))
        parts.append(_stmt(n, ch, ctx, force_end))
    parts.append(_comment(ch))
    return ' '.join(p for p in parts if p)


def _block(body, ch, ctx, brace, endword, force_end_last=False):
    inner = render(body, ch, _force_end_last=force_end_last, _ctx=ctx)
    if brace:
        return '{ ' + inner + (' ' if inner else '') + '}'
    return inner + (' ' if inner else '') + _case(endword, ch)


def _stmt(n, ch, ctx, force_end=False):
    k = n[0]
    if k == 'i':
        code = n[1]
        sh = O.shape_of(code)
        nm = _opname(code, ch)
        ops = n[2:]
        if sh == 'none':
            return nm
        if sh == 'u8':
            return nm + ' ' + _u8(ops[0], ch)
        if sh == 'lv1':
            v = ops[0]
            if code == C['OP_PUSH1']:
                if ch(3, 'pushsize') == 2:
                    # size omitted: legal only when an op name / special symbol follows; the
                    # renderer appends nothing, so a rejection here is a documented quirk
                    return nm + ' ' + _hexval(v, ch)
                return nm + ' d%d ' % len(v) + _hexval(v, ch)
            if code in (C['OP_DIV_INT'], C['OP_MOD_INT']):
                return nm + ' ' + _value(v, ch, allow_s=False)
            if code in (C['OP_SET_FLAG'], C['OP_UNSET_FLAG']):
                return nm + ' ' + _value(v, ch, allow_s=False)
            return nm + ' ' + _value(v, ch, allow_d=False)
        if sh == 'lv2':
            v = ops[0]
            if ch(3, 'pushsize') == 2:
                return nm + ' ' + _hexval(v, ch)
            return nm + ' d%d ' % len(v) + _hexval(v, ch)
        if sh == 'wc':
            key, cnt = ops
            kt = _value(key, ch, allow_d=False)
            # decimal key form: like every other d value, the key is the VM encoding of the integer (the parser of this
            # instruction accepts non-negative decimals only)
            if 0 < len(key) <= 6 and ch(4, 'values') == 3:
                n = int.from_bytes(key, 'big', signed=True)
                if n >= 0 and _min_signed(n) == key:
                    kt = 'd%d' % n
            return nm + ' ' + kt + ' ' + _u8(cnt, ch, signed_dec=False)
        if sh == 'f4':
            v = ops[0]
            if len(v) == 4 and ch(2, 'values') == 1:
                f = struct.unpack('!f', v)[0]
                if f == f and abs(f) < 2 ** 31 and f == int(f) and struct.pack('!f', float(int(f))) == v:
                    return nm + ' f%d' % int(f)
            return nm + ' ' + _hexval(v, ch)
        if sh == 'u8u8':
            return nm + ' ' + _u8(ops[0], ch, False) + ' ' + _u8(ops[1], ch, False)
        if sh == 'u8x3':
            return nm + ' ' + _u8(ops[0], ch, False) + ' ' + _u8(ops[1], ch, False) + ' ' + _u8(ops[2], ch, False)
        if sh == 'h32':
            return nm + ' ' + _hexval(ops[0], ch)
        raise R.NotEncodable(sh)
    if k == 'push':
        nm = _case(['OP_PUSH', 'PUSH'][ch(2, 'alias')], ch)
        return nm + ' ' + _value(n[1], ch)
    if k == 'varset':
        return '@= ' + n[1] + ' [ ' + ' '.join(_value(v, ch) for v in n[2]) + (' ' if n[2] else '') + ']'
    if k == 'varsetn':
        return '@= %s %d' % (n[1], n[2])
    if k == 'varload':
        return '@' + n[1]
    if k == 'varsize':
        return '@#' + n[1]
    if k == 'macro':
        ctx.macros += 1
        mname = n[1]
        v, cnt = n[2], n[3]
        a1, a2 = 'arg1', 'second'
        return ('!= %s [ %s %s ] { %s %s %s %s } !%s [ %s %s ]' % (
            mname, a1, a2, _case('push', ch), a1, _case('copy', ch), a2,
            mname, _value(v, ch), _u8(cnt, ch)))
    if k == 'comptime':
        return _case(['OP_PUSH', 'PUSH'][ch(2, 'alias')], ch) + ' ~ { ' + render(n[1], ch, _ctx=ctx) + ' }'
    if k == 'comptime_exec':
        return _case('push', ch) + ' ~! { ' + _case('push', ch) + ' ' + _value(n[1], ch) + ' ' + _case('sha256', ch) + ' }'
    if k == 'def':
        h = n[1]
        hs = [str(h), 'd%d' % h, 'x%02x' % h][ch(3, 'values')] if isinstance(h, int) and 0 <= h <= 255 else str(h)
        brace = ch(3, 'endstyle') != 2
        kw = _case(['OP_DEF', 'DEF'][ch(2, 'alias')], ch)
        return kw + ' ' + hs + ' ' + _block(n[2], ch, ctx, brace, 'END_DEF')
    if k in ('if', 'ife'):
        kw = _case(['OP_IF', 'IF'][ch(2, 'alias')], ch)
        hoisted = n[2] if k == 'if' and len(n) > 2 else (n[3] if k == 'ife' and len(n) > 3 else None)
        hs = ''
        pre = ''
        if hoisted:
            if 'hoist' in ch.off:
                pre = render(hoisted, ch, _ctx=ctx) + ' '
            else:
                ch.used.add('hoist')
                hs = '( ' + render(hoisted, ch, _ctx=ctx) + ' ) '
        kw = pre + kw
        brace = ch(3, 'endstyle') != 2
        if k == 'if':
            if force_end:
                brace = False
            return kw + ' ' + hs + _block(n[1], ch, ctx, brace, 'END_IF')
        if brace:
            return (kw + ' ' + hs + _block(n[1], ch, ctx, True, '') + ' ' + _case('ELSE', ch) + ' ' +
                    _block(n[2], ch, ctx, True, ''))
        a = render(n[1], ch, _force_end_last=True, _ctx=ctx)
        return (kw + ' ' + hs + a + (' ' if a else '') + _case('ELSE', ch) + ' ' +
                _block(n[2], ch, ctx, False, 'END_IF'))
    if k == 'try':
        kw = _case(['OP_TRY', 'TRY'][ch(2, 'alias')], ch)
        brace = ch(3, 'endstyle') != 2
        a, b = n[1], n[2]
        if brace:
            s = kw + ' ' + _block(a, ch, ctx, True, '')
            if b or (ch(2, 'endstyle') == 1 and not force_end):
                s += ' ' + _case('EXCEPT', ch) + ' ' + _block(b, ch, ctx, True, '')
            elif force_end:
                # dangling-EXCEPT rule: always spell the (empty) EXCEPT out
                s += ' ' + _case('EXCEPT', ch) + ' { }'
            return s
        ar = render(a, ch, _force_end_last=True, _ctx=ctx)
        return (kw + ' ' + ar + (' ' if ar else '') + _case('EXCEPT', ch) + ' ' +
                _block(b, ch, ctx, False, 'END_EXCEPT'))
    if k == 'loop':
        kw = _case(['OP_LOOP', 'LOOP'][ch(2, 'alias')], ch)
        brace = ch(3, 'endstyle') != 2
        return kw + ' ' + _block(n[1], ch, ctx, brace, 'END_LOOP')
    raise R.NotEncodable('node %r' % (k,))
